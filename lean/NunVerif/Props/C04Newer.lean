import NunVerif.Props.C04Data
/-
  C04 on databases with the `newer` strategy (and without one): a stale versioned write is RESOLVED
  by the node that receives it, not refused — `apply_change_to_db_try_fix_conflicts` compares the
  operation ids of the incoming change and of the stored entry and, when the change is the more
  recent one, applies it again as a resolution on top of the stored version.  Operation ids are
  local to a node.  What makes the two nodes decide alike is an invariant, not the ids themselves:
  every stored entry was written by an operation older than the node's clock (`DbBelow`), so on
  either node the incoming change is always the more recent one.

  * `Db.applyNN` — the effect of `apply_change…` on the database, for the two strategies;
  * `applyNN_agreeS` — one change, two replicas, each below its own clock: they agree afterwards
    and accept / refuse alike;
  * `applyChange_is_applyNN` — the node-level function computes exactly that.
-/
namespace Nun
open Bytes

/-- every entry of the database was stored by an operation with an id below `c` -/
def DbBelow (db : Db) (c : Nat) : Prop := ∀ k e, db.getValue k = some e → e.opId < c

theorem dbBelow_mono {db : Db} {c c' : Nat} (h : DbBelow db c) (hc : c ≤ c') : DbBelow db c' :=
  fun k e hk => Nat.lt_of_lt_of_le (h k e hk) hc

theorem dbBelow_put (db : Db) (c : Nat) (k v : Bytes) (ver : Int) (st : Status) (va ka op : Nat)
    (h : DbBelow db c) (hop : op < c) : DbBelow (db.setValueVersion k v ver st va ka op) c := by
  intro k' e hk
  rw [getValue_setValueVersion] at hk
  split at hk
  · cases hk; exact hop
  · exact h k' e hk

theorem dbBelow_setValue (db : Db) (ch : Change) (c : Nat) (h : DbBelow db c) (hop : ch.opId < c) : DbBelow (db.setValue ch).1 c := by
  cases hg : db.getValue ch.key with
  | none => rw [setValue_absent db ch hg]; exact dbBelow_put db c _ _ _ _ _ _ _ h hop
  | some old =>
    rw [setValue_on_entry db ch old hg]
    split
    · exact h
    · exact dbBelow_put db c _ _ _ _ _ _ _ h hop

/-- the effect of `apply_change_to_db_try_fix_conflicts` on a database without a strategy or with the
`newer` strategy: the new database and whether the write is answered as accepted.  `op2` is the
operation id the resolution gets (the node's clock at that moment). -/
def Db.applyNN (db : Db) (c : Change) (op2 : Nat) : Db × Bool :=
  match db.setValue c with
  | (db', .set _ _, _) => (db', true)
  | (_, .versionError key ov _ old ch _, _) =>
    match db.strategy with
    | .newer =>
      if ch.opId > old.opId then
        match db.setValue { key := key, value := ch.value, version := ov, opId := op2, resolve := true } with
        | (db', .set _ _, _) => (db', true)
        | (db', .versionError .., _) => (db', false)
      else (db, true)
    | _ => (db, false)

theorem applyNN_below (db : Db) (c : Change) (op2 cl : Nat) (h : DbBelow db cl) (h1 : c.opId < cl) (h2 : op2 < cl) :
    DbBelow (db.applyNN c op2).1 cl := by
  unfold Db.applyNN
  have hs := dbBelow_setValue db c cl h h1
  cases hsv : db.setValue c with
  | mk db' rest =>
    cases rest with
    | mk resp ps =>
      rw [hsv] at hs
      cases resp with
      | set k v => exact hs
      | versionError key ov ver old ch st =>
        simp only []
        cases db.strategy with
        | none => exact h
        | arbiter => exact h
        | newer =>
          simp only []
          split
          · have hs2 := dbBelow_setValue db { key := key, value := ch.value, version := ov, opId := op2, resolve := true } cl h h2
            cases hsv2 : db.setValue { key := key, value := ch.value, version := ov, opId := op2, resolve := true } with
            | mk db2 rest2 =>
              cases rest2 with
              | mk resp2 ps2 =>
                rw [hsv2] at hs2
                cases resp2 <;> exact hs2
          · exact h

theorem applyNN_frame (db : Db) (c : Change) (op2 : Nat) :
    (db.applyNN c op2).1.name = db.name ∧ (db.applyNN c op2).1.strategy = db.strategy := by
  unfold Db.applyNN
  have h1 := (setValue_conns db c).2.1
  have h1s := setValue_strategy db c
  cases hsv : db.setValue c with
  | mk db' rest =>
    cases rest with
    | mk resp ps =>
      rw [hsv] at h1 h1s
      cases resp with
      | set k v => exact ⟨h1, h1s⟩
      | versionError key ov ver old ch st =>
        simp only []
        cases hst : db.strategy with
        | none => exact ⟨rfl, hst⟩
        | arbiter => exact ⟨rfl, hst⟩
        | newer =>
          simp only []
          split
          · have h2 := (setValue_conns db { key := key, value := ch.value, version := ov, opId := op2, resolve := true }).2.1
            have h2s := setValue_strategy db { key := key, value := ch.value, version := ov, opId := op2, resolve := true }
            cases hsv2 : db.setValue { key := key, value := ch.value, version := ov, opId := op2, resolve := true } with
            | mk db2 rest2 =>
              cases rest2 with
              | mk resp2 ps2 =>
                rw [hsv2] at h2 h2s
                cases resp2 <;> exact ⟨h2, h2s.trans hst⟩
          · exact ⟨rfl, hst⟩

theorem applyNN_absent (db : Db) (c : Change) (op2 : Nat) (hg : db.getValue c.key = none) :
    db.applyNN c op2 = ((db.setValue c).1, true) := by
  unfold Db.applyNN
  rw [setValue_absent db c hg]

theorem applyNN_accept (db : Db) (c : Change) (op2 : Nat) (old : Entry) (hg : db.getValue c.key = some old)
    (h : ¬ (c.nextVersion old ≤ old.version ∧ ¬ c.keepInConflict = true)) :
    db.applyNN c op2 = ((db.setValue c).1, true) := by
  unfold Db.applyNN
  rw [setValue_on_entry db c old hg, if_neg h]

theorem applyNN_refuse (db : Db) (c : Change) (op2 : Nat) (old : Entry) (hg : db.getValue c.key = some old)
    (h : c.nextVersion old ≤ old.version ∧ ¬ c.keepInConflict = true) :
    db.applyNN c op2 =
      match db.strategy with
      | .newer =>
        if c.opId > old.opId then
          match db.setValue { key := c.key, value := c.value, version := old.version, opId := op2, resolve := true } with
          | (db', .set _ _, _) => (db', true)
          | (db', .versionError .., _) => (db', false)
        else (db, true)
      | _ => (db, false) := by
  unfold Db.applyNN
  rw [setValue_on_entry db c old hg, if_pos h]

/-- **one change, two replicas, each below its own clock**: they agree afterwards and answer alike —
without a strategy and with the `newer` strategy -/
theorem applyNN_agreeS (a b : Db) (c c' : Change) (opa opb : Nat) (h : a.AgreeS b) (hc : c.Same c') (hst : a.strategy = b.strategy)
    (ha : DbBelow a c.opId) (hb : DbBelow b c'.opId) :
    (a.applyNN c opa).1.AgreeS (b.applyNN c' opb).1 ∧ (a.applyNN c opa).2 = (b.applyNN c' opb).2 := by
  have h1 := setValue_agreeS a b c c' h hc
  obtain ⟨hk, hv, hver, hres⟩ := hc
  rcases agreeS_entries h c.key with ⟨hga, hgb⟩ | ⟨ea, eb, hga, hgb, hpv, hpver, hpd, hpn⟩
  · have hgb' : b.getValue c'.key = none := by rw [← hk]; exact hgb
    rw [applyNN_absent a c opa hga, applyNN_absent b c' opb hgb']
    exact ⟨h1, rfl⟩
  · have hgb' : b.getValue c'.key = some eb := by rw [← hk]; exact hgb
    have hnv : c.nextVersion ea = c'.nextVersion eb := by
      simp only [Change.nextVersion, Change.keepInConflict, Entry.inConflict, hver, hres, hpver]
      try rfl
    have hkc : c.keepInConflict = c'.keepInConflict := by simp [Change.keepInConflict, hver]
    by_cases hcond : c.nextVersion ea ≤ ea.version ∧ ¬ c.keepInConflict = true
    · have hcond' : c'.nextVersion eb ≤ eb.version ∧ ¬ c'.keepInConflict = true := by rw [← hnv, ← hpver, ← hkc]; exact hcond
      rw [applyNN_refuse a c opa ea hga hcond, applyNN_refuse b c' opb eb hgb' hcond', ← hst]
      cases hs : a.strategy with
      | none => exact ⟨h, rfl⟩
      | arbiter => exact ⟨h, rfl⟩
      | newer =>
        simp only []
        have hoa : c.opId > ea.opId := ha c.key ea hga
        have hob : c'.opId > eb.opId := hb c'.key eb hgb'
        rw [if_pos hoa, if_pos hob]
        have hsame : Change.Same { key := c.key, value := c.value, version := ea.version, opId := opa, resolve := true }
            { key := c'.key, value := c'.value, version := eb.version, opId := opb, resolve := true } := ⟨hk, hv, hpver, rfl⟩
        have h2 := setValue_agreeS a b _ _ h hsame
        have hiff := (setValue_agree a b _ _ h.agree hsame).2
        cases hsa : a.setValue { key := c.key, value := c.value, version := ea.version, opId := opa, resolve := true } with
        | mk da ra =>
          cases ra with
          | mk respa psa =>
            cases hsb : b.setValue { key := c'.key, value := c'.value, version := eb.version, opId := opb, resolve := true } with
            | mk db rb =>
              cases rb with
              | mk respb psb =>
                rw [hsa, hsb] at h2 hiff
                cases respa <;> cases respb
                · exact ⟨h2, rfl⟩
                · exact absurd (hiff.1 ⟨_, _, rfl⟩) (by rintro ⟨_, _, hx⟩; cases hx)
                · exact absurd (hiff.2 ⟨_, _, rfl⟩) (by rintro ⟨_, _, hx⟩; cases hx)
                · exact ⟨h2, rfl⟩
    · have hcond' : ¬ (c'.nextVersion eb ≤ eb.version ∧ ¬ c'.keepInConflict = true) := by rw [← hnv, ← hpver, ← hkc]; exact hcond
      rw [applyNN_accept a c opa ea hga hcond, applyNN_accept b c' opb eb hgb' hcond']
      exact ⟨h1, rfl⟩

theorem setValue_refused_same (db : Db) (c : Change) (h : ¬ ∃ k v, (db.setValue c).2.1 = .set k v) : (db.setValue c).1 = db := by
  cases hg : db.getValue c.key with
  | none => rw [setValue_absent db c hg] at h; exact absurd ⟨_, _, rfl⟩ h
  | some old =>
    rw [setValue_on_entry db c old hg] at h ⊢
    split
    · rfl
    · rename_i hc; rw [if_neg hc] at h; exact absurd ⟨_, _, rfl⟩ h

theorem applyNN_refused_same (db : Db) (c : Change) (op2 : Nat) (h : (db.applyNN c op2).2 = false) : (db.applyNN c op2).1 = db := by
  unfold Db.applyNN at h ⊢
  cases hsv : db.setValue c with
  | mk db' rest =>
    cases rest with
    | mk resp ps =>
      rw [hsv] at h
      cases resp with
      | set k v => simp at h
      | versionError key ov ver old ch st =>
        simp only [] at h ⊢
        cases hst : db.strategy with
        | none => rfl
        | arbiter => rfl
        | newer =>
          rw [hst] at h
          simp only [] at h ⊢
          split
          · rename_i hgt
            rw [if_pos hgt] at h
            have hsame := setValue_refused_same db { key := key, value := ch.value, version := ov, opId := op2, resolve := true }
            cases hsv2 : db.setValue { key := key, value := ch.value, version := ov, opId := op2, resolve := true } with
            | mk db2 rest2 =>
              cases rest2 with
              | mk resp2 ps2 =>
                rw [hsv2] at h hsame
                cases resp2 with
                | set k v => simp at h
                | versionError => exact hsame (by rintro ⟨_, _, hx⟩; cases hx)
          · rfl

/-- **`apply_change…` at node level is `applyNN`**, for a database without a strategy or with the `newer`
one whose entries are below the node's clock: the database it returns, whether the reply is an
error, the frame (nothing else of the node changes but the clock, by at most one tick), nothing for
the replication channel, and the new database is again below the new clock -/
theorem applyChange_nn (n : Node) (db : Db) (c : Change) (hs : db.strategy = .none ∨ db.strategy = .newer)
    (hb : DbBelow db n.clock) (hc : c.opId < n.clock) :
    (n.applyChange db c).2.1 = (db.applyNN c n.clock).1 ∧
    ((n.applyChange db c).2.2.1.isError = !(db.applyNN c n.clock).2) ∧
    (n.applyChange db c).1.dbs = n.dbs ∧ (n.applyChange db c).1.sessions = n.sessions ∧ (n.applyChange db c).1.role = n.role ∧
    (n.applyChange db c).1.pending = n.pending ∧ (n.applyChange db c).1.members = n.members ∧ (n.applyChange db c).1.addr = n.addr ∧
    n.clock ≤ (n.applyChange db c).1.clock ∧ (n.applyChange db c).1.clock ≤ n.clock + 1 ∧
    replLines (n.applyChange db c).2.2.2 = [] ∧ DbBelow (n.applyChange db c).2.1 (n.applyChange db c).1.clock := by
  unfold Node.applyChange Db.applyNN
  have hsb := dbBelow_setValue db c n.clock hb hc
  cases hsv : db.setValue c with
  | mk db' rest =>
    cases rest with
    | mk resp ps =>
      rw [hsv] at hsb
      cases resp with
      | set k v =>
        exact ⟨rfl, rfl, rfl, rfl, rfl, rfl, rfl, rfl, Nat.le_refl _, Nat.le_succ _, replLines_pushes ps, hsb⟩
      | versionError key ov ver old ch st =>
        simp only []
        rcases hs with hs | hs
        · rw [hs]; exact ⟨rfl, rfl, rfl, rfl, rfl, rfl, rfl, rfl, Nat.le_refl _, Nat.le_succ _, rfl, hb⟩
        · rw [hs]
          simp only [Node.tick]
          split
          · have hsb2 := dbBelow_setValue db { key := key, value := ch.value, version := ov, opId := n.clock, resolve := true } (n.clock + 1)
              (dbBelow_mono hb (Nat.le_succ _)) (Nat.lt_succ_self _)
            cases hsv2 : db.setValue { key := key, value := ch.value, version := ov, opId := n.clock, resolve := true } with
            | mk db2 rest2 =>
              cases rest2 with
              | mk resp2 ps2 =>
                rw [hsv2] at hsb2
                cases resp2 with
                | set k v => exact ⟨rfl, rfl, rfl, rfl, rfl, rfl, rfl, rfl, Nat.le_succ _, Nat.le_refl _, replLines_pushes ps2, hsb2⟩
                | versionError => exact ⟨rfl, rfl, rfl, rfl, rfl, rfl, rfl, rfl, Nat.le_succ _, Nat.le_refl _, replLines_pushes ps2, hsb2⟩
          · exact ⟨rfl, rfl, rfl, rfl, rfl, rfl, rfl, rfl, Nat.le_refl _, Nat.le_succ _, rfl, hb⟩

/-- what the primary does with a client's `set` / `set-safe` on a database without a strategy or with
the `newer` one: `applyNN` on the selected database; an accepted write (resolved ones included) prints
exactly one envelope with the REQUEST's own fields, a refused one prints nothing -/
theorem primary_set_emits_nn (recur : Node → Sid → Bytes → Node × Out) (P : Node) (sid : Sid) (key value : Bytes) (ver : Int) (dbP : Db)
    (hnames : NamesOk P) (hrole : P.role = .primary)
    (hacc : P.safeAccess sid key .write = .granted dbP) (hstrat : dbP.strategy = .none ∨ dbP.strategy = .newer)
    (hbelow : DbBelow dbP P.clock) :
    let c : Change := { key := key, value := value, version := ver, opId := P.clock, resolve := false }
    let ap := dbP.applyNN c (P.clock + 1)
    let res : Node × Out :=
      match Node.processObj recur P sid (.set key value ver) with
      | (n', r, evs) =>
        match Node.replicateRequest n' (.set key value ver) (P.session sid).db r with
        | (n'', r', evs') => (n'', r', evs ++ evs')
    P.clock < res.1.clock ∧ res.1.clock ≤ P.clock + 3 ∧ res.1.role = P.role ∧ DbBelow ap.1 res.1.clock ∧
    (ap.2 = true → res.1.dbs = AL.put P.dbs dbP.name ap.1 ∧
        ∃ id, P.clock < id ∧ id ≤ P.clock + 2 ∧ replLines res.2.2 = [rpLine id (replicateMsg dbP.name key value ver)]) ∧
    (ap.2 = false → res.1.dbs = P.dbs ∧ replLines res.2.2 = []) := by
  obtain ⟨d, hsel, hd⟩ := safeAccess_selected P sid key .write dbP hacc
  have hname : dbP.name = d := hnames d dbP hd
  intro c ap res
  have hA := applyChange_nn ({ P with clock := P.clock + 1 } : Node) dbP
    { key := key, value := value, version := ver, opId := P.clock, resolve := false } hstrat (dbBelow_mono hbelow (Nat.le_succ _)) (Nat.lt_succ_self _)
  have hres : res =
      (match Node.processObj recur P sid (.set key value ver) with
      | (n', r, evs) =>
        match Node.replicateRequest n' (.set key value ver) (P.session sid).db r with
        | (n'', r', evs') => (n'', r', evs ++ evs')) := rfl
  have hapdef : ap = dbP.applyNN { key := key, value := value, version := ver, opId := P.clock, resolve := false } (P.clock + 1) := rfl
  clear_value res ap c
  simp only [Node.processObj, hacc, Node.withAccess, Node.setKeyValue, Node.tick] at hres
  rcases hr : ({ P with clock := P.clock + 1 } : Node).applyChange dbP
    { key := key, value := value, version := ver, opId := P.clock, resolve := false } with ⟨n2, db2, resp, evs⟩
  simp only [hr] at hA hres
  obtain ⟨hdb2, herr, hdbs2, _, hrole2, _, _, _, hcl1, hcl2, hrepl, hbel⟩ := hA
  have hdb2' : db2 = ap.1 := by rw [hapdef]; exact hdb2
  have herr' : resp.isError = !ap.2 := by rw [hapdef]; exact herr
  have hprim : (n2.setDb db2).isPrimary = true := by simp [Node.isPrimary, Node.setDb, hrole2, hrole]
  simp only [hprim, Bool.not_true, Bool.false_eq_true, if_false, List.append_nil] at hres
  have hnm : db2.name = d := by rw [hdb2', hapdef, (applyNN_frame dbP _ (P.clock + 1)).1]; exact hname
  cases hacc2 : ap.2 with
  | true =>
    have hne : resp.isError = false := by rw [herr', hacc2]; rfl
    have hfound : (n2.setDb db2).db? d = some db2 := by simp [Node.setDb, Node.db?, ← hnm]
    simp only [Node.replicateRequest, hne, hsel, hfound, Option.isNone_some, Bool.false_eq_true, if_false,
      Node.replicateRequestCore, Node.replicateWeb, Node.tick, Option.getD_some] at hres
    rw [hres]
    have hclk : (n2.setDb db2).clock = n2.clock := rfl
    refine ⟨by simp only [hclk]; omega, by simp only [hclk]; omega, by simp [Node.setDb, hrole2], ?_, fun _ => ⟨?_, n2.clock, by omega, by omega, ?_⟩, fun h => (by cases h)⟩
    · rw [← hdb2']; exact dbBelow_mono hbel (by simp only [hclk]; omega)
    · have hnm2 : ap.1.name = d := by rw [← hdb2']; exact hnm
      simp [Node.setDb, hdbs2, hname, hdb2', hnm2]
    · rw [replLines_append, hrepl]
      simp [replLines, rpLine, Node.setDb, hname]
  | false =>
    have hne : resp.isError = true := by rw [herr', hacc2]; rfl
    simp only [Node.replicateRequest, hne, if_true] at hres
    rw [hres]
    have hsame : ap.1 = dbP := by
      have h0 : (dbP.applyNN { key := key, value := value, version := ver, opId := P.clock, resolve := false } (P.clock + 1)).2 = false := by rw [← hapdef]; exact hacc2
      rw [hapdef]; exact applyNN_refused_same dbP _ (P.clock + 1) h0
    refine ⟨by show P.clock < n2.clock; omega, by show n2.clock ≤ P.clock + 3; omega, by simp [Node.setDb, hrole2], ?_, fun h => (by cases h), fun _ => ⟨?_, ?_⟩⟩
    · rw [← hdb2']; exact hbel
    · simp only [Node.setDb, hdbs2]
      rw [hdb2', hsame]
      exact AL.put_same_value P.dbs dbP.name dbP (by rw [hname]; exact hd)
    · rw [List.append_nil]; exact hrepl

theorem replicateRequest_clock (n : Node) (req : Request) (d : Option Bytes) (r : Resp) :
    n.clock ≤ (n.replicateRequest req d r).1.clock := by
  have core : n.clock ≤ (Node.replicateRequestCore n req d r).1.clock := by
    unfold Node.replicateRequestCore
    cases req <;> simp [Node.replicateWeb, Node.tick]
  unfold Node.replicateRequest
  split
  · exact Nat.le_refl _
  · split
    · split
      · exact Nat.le_refl _
      · exact core
    · exact core

/-- the clock only moves forward through the envelope -/
theorem envelope_clock (T : Node) (link : Sid) (id : Nat) (msg : Bytes) (req : Request) (fuel : Nat)
    (hparse : Request.parse (Bytes.trimBoth 10 msg) = .ok req)
    (hne : msg ≠ []) (h59 : msg.getLast? ≠ some 59) (h10 : msg.getLast? ≠ some 10)
    (hnoenv : Bytes.startsWith (Bytes.trimBoth 10 msg) b!"rp " = false) (hid : id < u64Bound) :
    (Node.processObj (Node.recurOf fuel) T link req).1.clock
      ≤ (Node.processRequestWith (Node.recurOf (fuel + 1)) T link (rpLine id msg)).1.clock := by
  rw [processRequestWith_of_parse _ _ _ _ _ (parse_trim_rpLine id _ hid hne h59 h10)]
  have inner : (Node.processObj (Node.recurOf fuel) T link req).1.clock ≤ (Node.recurOf (fuel + 1) T link msg).1.clock := by
    simp only [Node.recurOf]
    rw [processRequestWith_of_parse _ _ _ _ _ hparse]
    generalize Node.processObj (Node.recurOf fuel) T link req = res
    obtain ⟨n1, r1, e1⟩ := res
    simp only []
    have := replicateRequest_clock n1 req (T.session link).db r1
    generalize Node.replicateRequest n1 req (T.session link).db r1 = rr at this
    obtain ⟨n2, r2, e2⟩ := rr
    exact this
  simp only [Node.processObj, hnoenv, Bool.false_eq_true, if_false]
  generalize Node.recurOf (fuel + 1) T link msg = res at inner
  obtain ⟨n1, r1, e1⟩ := res
  simp only []
  have := replicateRequest_clock n1 (Request.replicateRequest msg id) (T.session link).db r1
  generalize Node.replicateRequest n1 (Request.replicateRequest msg id) (T.session link).db r1 = rr at this
  obtain ⟨n2, r2, e2⟩ := rr
  simp only [] at this inner ⊢
  exact Nat.le_trans inner this

/-- `set_key_value` on a node whose copy of the database is below its clock -/
theorem setKeyValue_nn (n : Node) (db : Db) (k v : Bytes) (ver : Int) (hs : db.strategy = .none ∨ db.strategy = .newer)
    (hb : DbBelow db n.clock) :
    (n.setKeyValue db k v ver).2.1 = (db.applyNN { key := k, value := v, version := ver, opId := n.clock, resolve := false } (n.clock + 1)).1 ∧
    (n.setKeyValue db k v ver).1.dbs = n.dbs ∧ n.clock < (n.setKeyValue db k v ver).1.clock ∧
    DbBelow (n.setKeyValue db k v ver).2.1 (n.setKeyValue db k v ver).1.clock := by
  unfold Node.setKeyValue
  simp only [Node.tick]
  have hA := applyChange_nn ({ n with clock := n.clock + 1 } : Node) db
    { key := k, value := v, version := ver, opId := n.clock, resolve := false } hs (dbBelow_mono hb (Nat.le_succ _)) (Nat.lt_succ_self _)
  obtain ⟨h1, _, h3, _, _, _, _, _, h9, _, _, h12⟩ := hA
  exact ⟨h1, h3, Nat.lt_of_lt_of_le (Nat.lt_succ_self _) h9, h12⟩

/-- the secondary's side on a database below its clock: `applyNN`, the clock moves forward, the new copy
is below the new clock -/
theorem secondary_applies_set_nn (T : Node) (link : Sid) (id : Nat) (d k v : Bytes) (ver : Int) (dbT : Db) (fuel : Nat)
    (hauth : (T.session link).auth = true) (hdb : T.db? d = some dbT) (hname : dbT.name = d)
    (hs : dbT.strategy = .none ∨ dbT.strategy = .newer) (hb : DbBelow dbT T.clock)
    (w : WireOk d k v) (hv : fitsI32 ver = true) (hid : id < u64Bound) :
    (applyLine fuel link T (rpLine id (replicateMsg d k v ver))).dbs = AL.put T.dbs d
        (dbT.applyNN { key := k, value := v, version := ver, opId := T.clock, resolve := false } (T.clock + 1)).1 ∧
    (applyLine fuel link T (rpLine id (replicateMsg d k v ver))).sessions = T.sessions ∧
    T.clock < (applyLine fuel link T (rpLine id (replicateMsg d k v ver))).clock ∧
    DbBelow (dbT.applyNN { key := k, value := v, version := ver, opId := T.clock, resolve := false } (T.clock + 1)).1
      (applyLine fuel link T (rpLine id (replicateMsg d k v ver))).clock := by
  unfold applyLine
  generalize hT' : (Node.processRequestWith (Node.recurOf (fuel + 1)) T link (rpLine id (replicateMsg d k v ver))).1 = T'
  generalize hdb' : (dbT.applyNN { key := k, value := v, version := ver, opId := T.clock, resolve := false } (T.clock + 1)).1 = db'
  obtain ⟨h1, h2⟩ := secondary_applies_set T link id d k v ver dbT fuel hauth hdb w hv hid
  rw [hT'] at h1 h2
  obtain ⟨hk1, hk2, hk3, hk4⟩ := setKeyValue_nn T dbT k v ver hs hb
  rw [hdb'] at hk1
  have hmsg59 := replicateMsg_last d k v ver 59 (by decide) w.val_semi
  have hmsg10 := replicateMsg_last d k v ver 10 (by decide) (last_ne_of_not_mem v 10 w.val_nl)
  have hnoenv : Bytes.startsWith (Bytes.trimBoth 10 (replicateMsg d k v ver)) b!"rp " = false := by
    rw [trimBoth_id 10 _ (by rw [replicateMsg_shape]; simp) hmsg10, replicateMsg_shape]
    simp [Bytes.startsWith]
  have hclk := envelope_clock T link id _ _ fuel (parse_trim_replicateMsg d k v ver w hv) (replicateMsg_ne_nil d k v ver) hmsg59 hmsg10 hnoenv hid
  rw [hT'] at hclk
  have hobj : (Node.processObj (Node.recurOf fuel) T link (.replicateSet d k v ver)).1.clock = (T.setKeyValue dbT k v ver).1.clock := by
    simp only [Node.processObj, hauth, hdb, Bool.not_true, Bool.false_eq_true, if_false]
    generalize T.setKeyValue dbT k v ver = res
    obtain ⟨n1, db1, r1, e1⟩ := res
    rfl
  have hnm : db'.name = d := by
    rw [← hdb', (applyNN_frame dbT _ _).1]; exact hname
  rw [hobj] at hclk
  refine ⟨?_, h2, Nat.lt_of_lt_of_le hk3 hclk, ?_⟩
  · rw [h1, hk1]
    simp only [Node.setDb, hk2]
    rw [hnm]
  · have h6 : DbBelow db' (T.setKeyValue dbT k v ver).1.clock := by
      have := hk4; rw [hk1] at this; exact this
    exact dbBelow_mono h6 hclk

/-! ### any history of client writes on `none` / `newer` databases, any FIFO interleaving -/

def GoodN (link : Sid) (P T : Node) : Prop :=
  NamesOk P ∧ NamesOk T ∧ P.role = .primary ∧ (T.session link).auth = true ∧
  ∀ d dbP, P.db? d = some dbP → (dbP.strategy = .none ∨ dbP.strategy = .newer) ∧ DbBelow dbP P.clock ∧
    ∃ dbT, T.db? d = some dbT ∧ dbT.strategy = dbP.strategy ∧ DbBelow dbT T.clock ∧ dbP.AgreeS dbT

def WriteOkN (P : Node) (w : WReq) : Prop :=
  fitsI32 w.ver = true ∧ P.clock + 2 < u64Bound ∧
  ∀ dbP, P.safeAccess w.sid w.key .write = .granted dbP → WireOk dbP.name w.key w.value

theorem good_write_nn (recur : Node → Sid → Bytes → Node × Out) (fuel : Nat) (link : Sid) (P T : Node) (w : WReq)
    (hg : GoodN link P T) (hw : WriteOkN P w) :
    GoodN link (primaryStep recur P w).1 ((replLines (primaryStep recur P w).2.2).foldl (applyLine fuel link) T) := by
  have hg0 := hg
  obtain ⟨hnP, hnT, hrole, hlink, hall⟩ := hg
  obtain ⟨hv, hclock, hwire⟩ := hw
  cases hacc : P.safeAccess w.sid w.key .write with
  | refused out =>
    obtain ⟨herr, hnol⟩ := safeAccess_refused P w.sid w.key .write out hacc
    have hstep : primaryStep recur P w = (P, out.1, out.2 ++ []) := by
      unfold primaryStep
      simp only [Node.processObj, hacc, Node.withAccess, Node.replicateRequest, herr, if_true]
    rw [hstep]
    simp only [List.append_nil, hnol, List.foldl_nil]
    exact hg0
  | granted dbP =>
    obtain ⟨d, hsel, hd⟩ := safeAccess_selected P w.sid w.key .write dbP hacc
    have hname : dbP.name = d := hnP d dbP hd
    obtain ⟨hsP, hbP, dbT, hdT, hsT, hbT, hag0⟩ := hall d dbP hd
    have hdT' : T.db? dbP.name = some dbT := by rw [hname]; exact hdT
    have hTname : dbT.name = dbP.name := hnT _ _ hdT'
    have hsT' : dbT.strategy = .none ∨ dbT.strategy = .newer := by rw [hsT]; exact hsP
    have hwo := hwire dbP hacc
    have hPall : P.clock < (primaryStep recur P w).1.clock ∧ (primaryStep recur P w).1.clock ≤ P.clock + 3 ∧
        (primaryStep recur P w).1.role = P.role ∧
        DbBelow (dbP.applyNN { key := w.key, value := w.value, version := w.ver, opId := P.clock, resolve := false } (P.clock + 1)).1 (primaryStep recur P w).1.clock ∧
        ((dbP.applyNN { key := w.key, value := w.value, version := w.ver, opId := P.clock, resolve := false } (P.clock + 1)).2 = true →
          (primaryStep recur P w).1.dbs = AL.put P.dbs dbP.name (dbP.applyNN { key := w.key, value := w.value, version := w.ver, opId := P.clock, resolve := false } (P.clock + 1)).1 ∧
          ∃ id, P.clock < id ∧ id ≤ P.clock + 2 ∧ replLines (primaryStep recur P w).2.2 = [rpLine id (replicateMsg dbP.name w.key w.value w.ver)]) ∧
        ((dbP.applyNN { key := w.key, value := w.value, version := w.ver, opId := P.clock, resolve := false } (P.clock + 1)).2 = false →
          (primaryStep recur P w).1.dbs = P.dbs ∧ replLines (primaryStep recur P w).2.2 = []) :=
      primary_set_emits_nn recur P w.sid w.key w.value w.ver dbP hnP hrole hacc hsP hbP
    obtain ⟨hc1, hc2, hr, hbel, hyes, hno⟩ := hPall
    have hag := applyNN_agreeS dbP dbT { key := w.key, value := w.value, version := w.ver, opId := P.clock, resolve := false }
      { key := w.key, value := w.value, version := w.ver, opId := T.clock, resolve := false } (P.clock + 1) (T.clock + 1) hag0
      ⟨rfl, rfl, rfl, rfl⟩ hsT.symm hbP hbT
    -- the frame for the databases that were not written
    have others : ∀ (P' T' : Node) (dbT' : Db), P.clock ≤ P'.clock → T.clock ≤ T'.clock → T'.dbs = AL.put T.dbs dbP.name dbT' →
        ∀ d' dbP', d' ≠ dbP.name → P.db? d' = some dbP' →
        (dbP'.strategy = .none ∨ dbP'.strategy = .newer) ∧ DbBelow dbP' P'.clock ∧
          ∃ dbT0, T'.db? d' = some dbT0 ∧ dbT0.strategy = dbP'.strategy ∧ DbBelow dbT0 T'.clock ∧ dbP'.AgreeS dbT0 := by
      intro P' T' dbT' hp ht hTd d' dbP' hne hd'
      obtain ⟨a1, a2, dbT0, a3, a4, a5, a6⟩ := hall d' dbP' hd'
      refine ⟨a1, dbBelow_mono a2 hp, dbT0, ?_, a4, dbBelow_mono a5 ht, a6⟩
      show AL.get? T'.dbs d' = _
      rw [hTd, AL.get?_put, if_neg (fun e => hne e.symm)]; exact a3
    cases hacc2 : (dbP.applyNN { key := w.key, value := w.value, version := w.ver, opId := P.clock, resolve := false } (P.clock + 1)).2 with
    | true =>
      obtain ⟨hdbs, id, hid1, hid2, hlines⟩ := hyes hacc2
      rw [hlines]
      simp only [List.foldl_cons, List.foldl_nil]
      have hidb : id < u64Bound := by omega
      have hTall := secondary_applies_set_nn T link id dbP.name w.key w.value w.ver dbT fuel hlink hdT' hTname hsT' hbT hwo hv hidb
      obtain ⟨hT1', hT2, hT3, hT4⟩ := hTall
      refine ⟨?_, ?_, by rw [hr]; exact hrole, ?_, ?_⟩
      · have hnm := (applyNN_frame dbP { key := w.key, value := w.value, version := w.ver, opId := P.clock, resolve := false } (P.clock + 1)).1
        have : (primaryStep recur P w).1.dbs = (P.setDb (dbP.applyNN { key := w.key, value := w.value, version := w.ver, opId := P.clock, resolve := false } (P.clock + 1)).1).dbs := by
          rw [hdbs]; simp [Node.setDb, hnm]
        exact namesOk_of_dbs _ _ this (namesOk_setDb P _ hnP)
      · have hnm := (applyNN_frame dbT { key := w.key, value := w.value, version := w.ver, opId := T.clock, resolve := false } (T.clock + 1)).1
        have : (applyLine fuel link T (rpLine id (replicateMsg dbP.name w.key w.value w.ver))).dbs
            = (T.setDb (dbT.applyNN { key := w.key, value := w.value, version := w.ver, opId := T.clock, resolve := false } (T.clock + 1)).1).dbs := by
          rw [hT1']; simp [Node.setDb, hnm, hTname]
        exact namesOk_of_dbs _ _ this (namesOk_setDb T _ hnT)
      · rw [session_of_sessions _ T link hT2]; exact hlink
      · intro d' dbP' hd'
        have hd'' : AL.get? (AL.put P.dbs dbP.name (dbP.applyNN { key := w.key, value := w.value, version := w.ver, opId := P.clock, resolve := false } (P.clock + 1)).1) d' = some dbP' := by
          have : AL.get? (primaryStep recur P w).1.dbs d' = some dbP' := hd'
          rw [hdbs] at this; exact this
        rw [AL.get?_put] at hd''
        by_cases hdd : dbP.name = d'
        · rw [if_pos hdd] at hd''
          cases hd''
          refine ⟨by rw [(applyNN_frame dbP _ _).2]; exact hsP, hbel, _, ?_, ?_, hT4, hag.1⟩
          · show AL.get? (applyLine fuel link T (rpLine id (replicateMsg dbP.name w.key w.value w.ver))).dbs d' = _
            rw [hT1', AL.get?_put, if_pos hdd]
          · rw [(applyNN_frame dbT _ _).2, (applyNN_frame dbP _ _).2]; exact hsT
        · rw [if_neg hdd] at hd''
          exact others (primaryStep recur P w).1 (applyLine fuel link T (rpLine id (replicateMsg dbP.name w.key w.value w.ver))) _
            (Nat.le_of_lt hc1) (Nat.le_of_lt hT3) hT1' d' dbP' (fun e => hdd e.symm) hd''
    | false =>
      obtain ⟨hdbs, hlines⟩ := hno hacc2
      rw [hlines]
      simp only [List.foldl_nil]
      refine ⟨namesOk_of_dbs _ _ hdbs hnP, hnT, by rw [hr]; exact hrole, hlink, ?_⟩
      intro d' dbP' hd'
      have hd'' : P.db? d' = some dbP' := by
        have h2 : AL.get? (primaryStep recur P w).1.dbs d' = some dbP' := hd'
        rw [hdbs] at h2; exact h2
      obtain ⟨a1, a2, dbT0, a3, a4, a5, a6⟩ := hall d' dbP' hd''
      exact ⟨a1, dbBelow_mono a2 (Nat.le_of_lt hc1), dbT0, a3, a4, a5, a6⟩

def AdmWritesN (recur : Node → Sid → Bytes → Node × Out) (fuel : Nat) (link : Sid) : Pair → List PStep → Prop
  | _, [] => True
  | c, s :: rest => (match s with | .write w => WriteOkN c.p w | .deliver => True) ∧ AdmWritesN recur fuel link (c.step recur fuel link s) rest

theorem good_step_nn (recur : Node → Sid → Bytes → Node × Out) (fuel : Nat) (link : Sid) (c : Pair) (s : PStep)
    (hg : GoodN link c.p (c.settled fuel link)) (hs : match s with | .write w => WriteOkN c.p w | .deliver => True) :
    GoodN link (c.step recur fuel link s).p ((c.step recur fuel link s).settled fuel link) := by
  cases s with
  | write w =>
    have := good_write_nn recur fuel link c.p (c.settled fuel link) w hg hs
    show GoodN link (primaryStep recur c.p w).1 ((c.q ++ replLines (primaryStep recur c.p w).2.2).foldl (applyLine fuel link) c.t)
    rw [List.foldl_append]; exact this
  | deliver =>
    simp only [Pair.step]
    cases hq : c.q with
    | nil => simp only [Pair.settled, hq] at hg ⊢; exact hg
    | cons l rest =>
      simp only [Pair.settled, hq, List.foldl_cons] at hg ⊢
      exact hg

/-- **C04 on `newer` databases**: for ANY history of `set` / `set-safe` commands of the primary's clients
— stale versioned writes included, which the `newer` strategy resolves instead of refusing —
interleaved in ANY way with FIFO deliveries, the secondary's databases agree with the primary's once
the lines in flight are delivered.  The two nodes resolve alike although operation ids are local,
because every stored entry is below its node's clock (`DbBelow`, part of the invariant). -/
theorem C04_newer_writes_converge (recur : Node → Sid → Bytes → Node × Out) (fuel : Nat) (link : Sid) (steps : List PStep) :
    ∀ (c : Pair), GoodN link c.p (c.settled fuel link) → AdmWritesN recur fuel link c steps →
      GoodN link (c.run recur fuel link steps).p ((c.run recur fuel link steps).settled fuel link) := by
  induction steps with
  | nil => intro c hg _; exact hg
  | cons s rest ih =>
    intro c hg ha
    exact ih (c.step recur fuel link s) (good_step_nn recur fuel link c s hg ha.1) ha.2

/-! ### the other two data commands keep every entry below the clock as well -/

theorem dbBelow_incValue (db : Db) (k : Bytes) (inc : Int) (op c : Nat) (h : DbBelow db c) (hop : op < c) :
    DbBelow (db.incValue k inc op).1 c := by
  unfold Db.incValue
  cases Bytes.parseI32 (db.incText k) with
  | none => exact h
  | some cur =>
    simp only []
    split
    · split
      · exact h
      · unfold Db.incStore
        cases db.getValue k with
        | none => exact dbBelow_put db c _ _ _ _ _ _ _ h hop
        | some e => exact dbBelow_put db c _ _ _ _ _ _ _ h hop
    · exact h

theorem dbBelow_removeValue (db db' : Db) (k : Bytes) (ps : List Push) (c : Nat) (h : DbBelow db c)
    (hr : db.removeValue k = some (db', ps)) : DbBelow db' c := by
  unfold Db.removeValue at hr
  split at hr
  · cases hr
  · simp only [Option.some.injEq, Prod.mk.injEq] at hr
    obtain ⟨h1, _⟩ := hr
    subst h1
    cases hg : db.getValue k with
    | none => exact h
    | some e =>
      simp only []
      split
      · intro k' e' hk'
        simp only [Db.getValue, AL.get?_erase] at hk'
        split at hk'
        · cases hk'
        · exact h k' e' hk'
      · exact dbBelow_put db c _ _ _ _ _ _ _ h (h k e hg)

/-! ### non-vacuity -/

def c04PN : Node := { c04P with dbs := [(b!"t", Db.new b!"t" 1 .newer)] }
def c04TN : Node := { c04T with dbs := [(b!"t", Db.new b!"t" 1 .newer)] }
def c04NSteps : List PStep :=
  [.write ⟨1, b!"color", b!"red", -1⟩, .write ⟨1, b!"color", b!"green", -1⟩, .deliver, .write ⟨1, b!"color", b!"blue", -1⟩,
   .write ⟨1, b!"color", b!"yellow", 0⟩, .deliver, .deliver, .deliver]

/-- a concrete run on a `newer` database: three plain writes, then a STALE versioned write (version 0
against a stored version 2), which the primary resolves instead of refusing; the secondary, fed the
printed lines, resolves it too — both end with `yellow` at version 3 (this is the history of seeded
change C04-4, on which the two nodes must not differ) -/
example : ((Pair.run (Node.recurOf 3) 3 100 ⟨c04PN, c04TN, []⟩ c04NSteps).q = []) ∧
    (((Pair.run (Node.recurOf 3) 3 100 ⟨c04PN, c04TN, []⟩ c04NSteps).t.db? b!"t").map fun db => db.pubOf b!"color") = some (some (b!"yellow", 3, false)) ∧
    (((Pair.run (Node.recurOf 3) 3 100 ⟨c04PN, c04TN, []⟩ c04NSteps).p.db? b!"t").map fun db => db.pubOf b!"color") = some (some (b!"yellow", 3, false)) := by
  refine ⟨?_, ?_, ?_⟩ <;> rfl

end Nun
