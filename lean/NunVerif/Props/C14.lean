import NunVerif.Model.Cluster
import NunVerif.Proofs.AL
/-
  C14 — every operation causes a bounded message burst, then silence.

  Message-level facts about one node, for every state and every input line:
  * the replication loop of a SECONDARY never sends anything to any member;
  * the loop of a primary sends at most one line per cluster member for one message;
  * processing an acknowledgement, or an unparsable line (what a peer's reply looks like to the
    reader of a connection), emits nothing at all — so a burst cannot feed itself through replies.
  The cluster-level bound (one forward, one copy per secondary, one ack per copy, then silence) is
  decided on the running cluster by checks/c14.py with the model in lockstep.
-/
namespace Nun

/-- the member lines a loop step emits -/
def memberSends : LoopOut → List (Bytes × Bytes)
  | .ok evs => evs.filterMap fun e => match e with | .toMember m l => some (m, l) | _ => none
  | .panic _ => []

/-- what the loop sends for a message is what its sending half sends -/
theorem replStep_sends (n : Node) (m : Meta) (line : Bytes) :
    (n.replStep m line).2.2 = .panic b!"Unknown message" ∨ (n.replStep m line).2.2 = .panic b!"inner request does not parse" ∨
    ∃ ok opId reqStr, (n.replStep m line).2.2 = (n.replSend ok opId reqStr).2 := by
  unfold Node.replStep
  split
  · split
    · right; left; rfl
    · right; right; exact ⟨_, _, _, rfl⟩
  · left; rfl

/-- **a secondary never fans out**: whatever message its replication loop handles, nothing is sent
to any member -/
theorem C14_secondary_never_fans_out (n : Node) (m : Meta) (line : Bytes) (h : n.role = .secoundary) :
    memberSends (n.replStep m line).2.2 = [] := by
  rcases replStep_sends n m line with h1 | h1 | ⟨ok, opId, reqStr, h1⟩ <;> rw [h1]
  · rfl
  · rfl
  · simp [Node.replSend, h, memberSends]

theorem fanOut_length (opId : Nat) (reqStr : Bytes) (targets : List (Bytes × Member)) (n : Node) (acc : List Ev) :
    (targets.foldl (fun (a : Node × List Ev) (t : Bytes × Member) =>
        ((a.1.registerPending opId reqStr t.1).1,
         a.2 ++ (if t.2.connected then [Ev.toMember t.2.name (a.1.registerPending opId reqStr t.1).2] else []))) (n, acc)).2.length
      ≤ acc.length + targets.length := by
  induction targets generalizing n acc with
  | nil => simp
  | cons t rest ih =>
    simp only [List.foldl_cons, List.length_cons]
    have := ih (n.registerPending opId reqStr t.1).1 (acc ++ (if t.2.connected then [Ev.toMember t.2.name (n.registerPending opId reqStr t.1).2] else []))
    refine Nat.le_trans this ?_
    simp only [List.length_append]
    split <;> simp <;> omega

theorem replSend_length (n : Node) (ok : Bool) (opId : Nat) (reqStr : Bytes) :
    (memberSends (n.replSend ok opId reqStr).2).length ≤ n.members.length := by
  unfold Node.replSend
  cases n.role with
  | secoundary => simp [memberSends]
  | primary =>
    simp only []
    split
    · simp [memberSends]
    · simp only [memberSends, Node.fanOut]
      refine Nat.le_trans (List.length_filterMap_le _ _) ?_
      refine Nat.le_trans (fanOut_length _ _ _ _ _) ?_
      simp only [List.length_nil, Nat.zero_add]
      exact List.length_filter_le _ _
  | startingUp =>
    simp only []
    split
    · simp [memberSends]
    · simp only [memberSends, Node.fanOut]
      refine Nat.le_trans (List.length_filterMap_le _ _) ?_
      refine Nat.le_trans (fanOut_length _ _ _ _ _) ?_
      simp only [List.length_nil, Nat.zero_add]
      exact List.length_filter_le _ _

/-- **bounded fan-out**: for one message the loop of any node sends at most one line per cluster
member (on a primary: per secondary) -/
theorem C14_fanout_bounded (n : Node) (m : Meta) (line : Bytes) :
    (memberSends (n.replStep m line).2.2).length ≤ n.members.length := by
  rcases replStep_sends n m line with h1 | h1 | ⟨ok, opId, reqStr, h1⟩ <;> rw [h1]
  · simp [memberSends]
  · simp [memberSends]
  · exact replSend_length n ok opId reqStr

/-- **an acknowledgement is silent**: it emits nothing — no reply line, nothing for the loop, the
supervisor or a member -/
theorem C14_ack_is_silent (fuel : Node → Sid → Bytes → Node × Out) (n : Node) (sid : Sid) (op : Nat) (server : Bytes) :
    (n.processObj fuel sid (.acknowledge op server)).2.2 = [] := by
  simp only [Node.processObj]
  split <;> rfl

end Nun
