import NunVerif.Props.C13
/-!
# C19 — newer-strategy databases accept every write; the last applied one wins

`Node.setKeyValue` models `set_key_value` = `Change::new` (fresh op id from the node's clock) +
`apply_change_to_db_try_fix_conflicts`. On a `newer` database a version conflict is resolved in
favour of the change with the larger op id; op ids are taken when the change is built on the
applying node, so in any sequential application the incoming change is the newer one.
-/
namespace Nun

/-- every stored entry was stamped before now -/
def ClockInv (clock : Nat) (db : Db) : Prop := ∀ k e, AL.get? db.map k = some e → e.opId < clock

/-- stored versions lie in `[0, B]` -/
def VerInvB (B : Int) (db : Db) : Prop := ∀ k e, AL.get? db.map k = some e → 0 ≤ e.version ∧ e.version ≤ B

/-- what an accepted `set_value` leaves behind -/
theorem setValue_accepted (db db' : Db) (c : Change) (k v : Bytes) (ps : List Push)
    (hkc : c.keepInConflict = false)
    (h : db.setValue c = (db', .set k v, ps)) :
    k = c.key ∧ v = c.value ∧ db'.strategy = db.strategy ∧ db'.watchers = db.watchers ∧
    (∃ e, db'.getValue c.key = some e ∧ e.value = c.value ∧ e.opId = c.opId ∧
        ps = db'.notify c.key c.value e.version ∧
        (∀ old, db.getValue c.key = some old → e.version = c.nextVersion old ∧ old.version < e.version) ∧
        (db.getValue c.key = none → e.version = vinc c.version)) ∧
    (∀ k', k' ≠ c.key → AL.get? db'.map k' = AL.get? db.map k') := by
  cases hg : db.getValue c.key with
  | none =>
    rw [setValue_absent db c hg] at h
    simp only [Prod.mk.injEq, SetResp.set.injEq] at h
    obtain ⟨h1, ⟨h2, h3⟩, h4⟩ := h
    subst h1
    refine ⟨h2.symm, h3.symm, rfl, rfl, ?_, ?_⟩
    · refine ⟨{ value := c.value, version := vinc c.version, opId := c.opId, state := .new, vaddr := 0, kaddr := 0 }, ?_, rfl, rfl, h4.symm, ?_, fun _ => rfl⟩
      · simp [Db.getValue, Db.setValueVersion]
      · intro old ho; simp at ho
    · intro k' hk
      simp only [Db.setValueVersion]; exact AL.get?_put_other _ _ (fun e => hk e.symm)
  | some old =>
    rw [setValue_on_entry db c old hg] at h
    split at h
    · simp at h
    · rename_i hcond
      simp only [Prod.mk.injEq, SetResp.set.injEq] at h
      obtain ⟨h1, ⟨h2, h3⟩, h4⟩ := h
      subst h1
      refine ⟨h2.symm, h3.symm, rfl, rfl, ?_, ?_⟩
      · refine ⟨{ value := c.value, version := c.nextVersion old, opId := c.opId, state := updState old.state, vaddr := old.vaddr, kaddr := old.kaddr }, ?_, rfl, rfl, h4.symm, ?_, ?_⟩
        · simp [Db.getValue, Db.setValueVersion]
        · intro old' ho
          simp only [Option.some.injEq] at ho; subst ho
          refine ⟨rfl, ?_⟩
          have : ¬ (c.nextVersion old ≤ old.version) := fun hle => hcond ⟨hle, by simp [hkc]⟩
          show old.version < c.nextVersion old
          omega
        · intro hn; simp at hn
      · intro k' hk
        simp only [Db.setValueVersion]; exact AL.get?_put_other _ _ (fun e => hk e.symm)

/-- **Normal form of a write on a newer database**: it always goes through — as the accepted
`set_value` of the change itself, or, when its version is stale, of its resolving twin (same key
and value, based on the stored version, stamped with a newer op id). -/
theorem newer_apply_accepted (n : Node) (db : Db) (c : Change) (B : Int)
    (hst : db.strategy = .newer) (hc : ClockInv c.opId db) (hcl : c.opId < n.clock)
    (hv : VerInvB B db) (hB : B < 2147483647) (hver : c.version ≠ -2) (hres : c.resolve = false) :
    ∃ (c₂ : Change) (n₂ : Node) (db₂ : Db) (ps₂ : List Push),
      n.applyChange db c = (n₂, db₂, .set c.key c.value, pushes ps₂) ∧
      db.setValue c₂ = (db₂, .set c.key c.value, ps₂) ∧
      c₂.key = c.key ∧ c₂.value = c.value ∧ c₂.keepInConflict = false ∧
      c₂.opId < n₂.clock ∧ n.clock ≤ n₂.clock ∧
      (c₂ = c ∨ ∃ old, db.getValue c.key = some old ∧ c₂.version = old.version ∧ c₂.resolve = true) := by
  have hkc : c.keepInConflict = false := keepInConflict_false c (by omega)
  cases hs : db.setValue c with
  | mk db' rest =>
    obtain ⟨r, ps⟩ := rest
    cases r with
    | set k v =>
      obtain ⟨hk, hvv, _⟩ := setValue_accepted db db' c k v ps hkc hs
      subst hk hvv
      refine ⟨c, n, db', ps, ?_, hs, rfl, rfl, hkc, hcl, Nat.le_refl _, Or.inl rfl⟩
      simp [Node.applyChange, hs]
    | versionError key ov ver old c' st =>
      obtain ⟨hdb, hk, hov, hvv, hc', hstt, hg, hps⟩ := setValue_versionError_fields db db' c key ov ver old c' st ps hs
      subst hdb hk hov hvv hc' hstt hps
      have hold := hv c'.key old hg
      have hnewer : c'.opId > old.opId := hc c'.key old hg
      let c₂ : Change := { key := c'.key, value := c'.value, version := old.version, opId := n.clock, resolve := true }
      have hk2 : c₂.keepInConflict = false := keepInConflict_false c₂ (by simp only [c₂]; omega)
      have hnv : c₂.nextVersion old = old.version + 1 := by
        have ho : old.inConflict = false := entry_inConflict_false old (by omega)
        simp [Change.nextVersion, hk2, ho, c₂, vinc_eq old.version (by omega)]
      have hset : db'.setValue c₂ = (db'.setValueVersion c'.key c'.value (old.version + 1) (updState old.state) old.vaddr old.kaddr n.clock,
          .set c'.key c'.value,
          (db'.setValueVersion c'.key c'.value (old.version + 1) (updState old.state) old.vaddr old.kaddr n.clock).notify c'.key c'.value (old.version + 1)) := by
        rw [setValue_on_entry db' c₂ old hg, hnv, if_neg (fun hh => by omega)]
      refine ⟨c₂, { n with clock := n.clock + 1 }, _, _, ?_, hset, rfl, rfl, hk2, by simp [c₂], by simp, Or.inr ⟨old, hg, rfl, rfl⟩⟩
      simp only [Node.applyChange, hs, hst, hnewer, if_true, Node.tick]
      have hset' := hset
      simp only [c₂] at hset'
      rw [hset']
      rfl

/-- one `set` / `set-safe` applied through `set_key_value` -/
structure Write where
  key : Bytes
  value : Bytes
  version : Int

/-- **Never refused, last write stored, version grows, watchers told exactly once.**
For every newer database whose stored versions are below the `i32` cap, every clock, and every
plain or versioned write (ANY version except the in-conflict marker -2: stale ones included, and versions below the markers — -3, `i32::MIN` — which are just very stale): the reply is `Set key value`
naming the value that is stored afterwards; the plain map changes exactly at that key; the stored
version is strictly above the previous one; and what is pushed is exactly one
`changed` / `changed-version` pair per registered watcher of the key, carrying the stored value
and version. -/
theorem C19_write (n : Node) (db : Db) (w : Write) (B : Int)
    (hst : db.strategy = .newer) (hc : ClockInv n.clock db) (hv : VerInvB B db) (hB : B < 2147483647)
    (hver : w.version ≠ -2) :
    let r := n.setKeyValue db w.key w.value w.version
    r.2.2.1 = .set w.key w.value ∧
    r.2.1.view = fupd db.view w.key (some w.value) ∧
    (∃ e, r.2.1.getValue w.key = some e ∧ e.value = w.value ∧
       (∀ old, db.getValue w.key = some old → old.version < e.version) ∧
       r.2.2.2 = pushes (r.2.1.notify w.key w.value e.version)) := by
  simp only [Node.setKeyValue, Node.tick]
  obtain ⟨c₂, n₂, db₂, ps₂, happ, hset, hk, hvl, hkc, _, _, _⟩ :=
    newer_apply_accepted { n with clock := n.clock + 1 } db
      { key := w.key, value := w.value, version := w.version, opId := n.clock, resolve := false } B hst hc (by simp) hv hB hver rfl
  rw [happ]
  obtain ⟨_, _, _, _, ⟨e, he, hev, _, hps, hold, _⟩, _⟩ := setValue_accepted db db₂ c₂ w.key w.value ps₂ hkc hset
  simp only [] at hk hvl
  refine ⟨rfl, ?_, e, by rw [← hk]; exact he, by rw [hev, hvl], ?_, ?_⟩
  · have := setValue_ok_view db db₂ c₂ w.key w.value ps₂ hset
    rw [this, hk, hvl]
  · intro old ho
    exact (hold old (by rw [hk]; exact ho)).2
  · simp only []; rw [hps, hk, hvl]

/-- invariants carried along a sequence of writes -/
theorem C19_write_inv (n : Node) (db : Db) (w : Write) (B : Int)
    (hst : db.strategy = .newer) (hc : ClockInv n.clock db) (hv : VerInvB B db) (hB : B < 2147483647)
    (hver : -1 ≤ w.version ∧ w.version ≤ B) :
    let r := n.setKeyValue db w.key w.value w.version
    r.2.1.strategy = .newer ∧ ClockInv r.1.clock r.2.1 ∧ VerInvB (B + 1) r.2.1 := by
  simp only [Node.setKeyValue, Node.tick]
  obtain ⟨c₂, n₂, db₂, ps₂, happ, hset, hk, hvl, hkc, hop, hcl, hwhich⟩ :=
    newer_apply_accepted { n with clock := n.clock + 1 } db
      { key := w.key, value := w.value, version := w.version, opId := n.clock, resolve := false } B hst hc (by simp) hv hB (by have := hver.1; simp only []; omega) rfl
  rw [happ]
  obtain ⟨_, _, hstr, _, ⟨e, he, _, heop, _, hold, hnone⟩, hother⟩ := setValue_accepted db db₂ c₂ w.key w.value ps₂ hkc hset
  simp only [] at hk hvl hcl
  refine ⟨by rw [hstr, hst], ?_, ?_⟩
  · intro k' e' hg'
    by_cases hkk : k' = c₂.key
    · subst hkk
      have : e' = e := by
        have := he; unfold Db.getValue at this; rw [this] at hg'; exact (Option.some.inj hg').symm
      rw [this, heop]; exact hop
    · rw [hother k' hkk] at hg'
      have := hc k' e' hg'
      show e'.opId < n₂.clock
      omega
  · intro k' e' hg'
    by_cases hkk : k' = c₂.key
    · subst hkk
      have hee : e' = e := by
        have := he; unfold Db.getValue at this; rw [this] at hg'; exact (Option.some.inj hg').symm
      rw [hee]
      cases hgo : db.getValue c₂.key with
      | none =>
        have hve := hnone hgo
        rcases hwhich with hc2 | ⟨old, ho, _, _⟩
        · rw [hve, hc2]; simp only []
          have := le_vinc w.version; have := vinc_le w.version
          constructor
          · unfold vinc; split <;> omega
          · omega
        · rw [← hk] at ho; rw [hgo] at ho; simp at ho
      | some old =>
        obtain ⟨hve, hlt⟩ := hold old hgo
        have hob := hv c₂.key old hgo
        rcases hwhich with hc2 | ⟨old', ho', hv2, hr2⟩
        · -- the change itself was accepted: version is vinc of the presented or of the old one
          rw [hve, hc2]
          have hkc' : ({ key := w.key, value := w.value, version := w.version, opId := n.clock, resolve := false } : Change).keepInConflict = false :=
            keepInConflict_false _ (by simp only []; omega)
          have hoc : old.inConflict = false := entry_inConflict_false old (by omega)
          simp only [Change.nextVersion, hkc', hoc, Bool.false_eq_true, if_false]
          have := vinc_le w.version; have := le_vinc w.version; have := vinc_le old.version; have := le_vinc old.version
          constructor
          · split <;> omega
          · split <;> omega
        · rw [← hk] at ho'; rw [hgo] at ho'; simp only [Option.some.injEq] at ho'; subst ho'
          rw [hve]
          have hoc : old.inConflict = false := entry_inConflict_false old (by omega)
          simp only [Change.nextVersion, hkc, hr2, hoc, Bool.false_eq_true, if_false, if_true]
          have := vinc_le old.version; have := le_vinc old.version
          constructor <;> omega
    · rw [hother k' hkk] at hg'
      have := hv k' e' hg'
      omega

/-- applying a list of writes, each through `set_key_value`, in order -/
def applyWrites : List Write → Node × Db → Node × Db
  | [], s => s
  | w :: ws, (n, db) =>
    let r := n.setKeyValue db w.key w.value w.version
    applyWrites ws (r.1, r.2.1)

/-- the plain map after a list of writes depends only on the writes and the initial plain map -/
def viewAfter : List Write → PlainMap → PlainMap
  | [], σ => σ
  | w :: ws, σ => viewAfter ws (fupd σ w.key (some w.value))

theorem applyWrites_view (ws : List Write) : ∀ (n : Node) (db : Db) (B : Int),
    db.strategy = .newer → ClockInv n.clock db → VerInvB B db → B + ws.length < 2147483647 →
    (∀ w ∈ ws, -1 ≤ w.version ∧ w.version ≤ B) →
    (applyWrites ws (n, db)).2.view = viewAfter ws db.view := by
  induction ws with
  | nil => intro n db B _ _ _ _ _; rfl
  | cons w ws ih =>
    intro n db B hst hc hv hB hw
    simp only [List.length_cons] at hB
    have hB' : B < 2147483647 := by omega
    have hwv := hw w (by simp)
    obtain ⟨_, hview, _⟩ := C19_write n db w B hst hc hv hB' (by have := hwv.1; omega)
    obtain ⟨hst', hc', hv'⟩ := C19_write_inv n db w B hst hc hv hB' hwv
    simp only [applyWrites, viewAfter]
    rw [← hview]
    apply ih _ _ (B + 1) hst' hc' hv' (by push_cast; omega)
    intro w' hw'
    have := hw w' (by simp [hw'])
    omega

/-- **Replica agreement.** The same writes applied in the same order on two nodes — whatever their
clocks, stored versions, op ids and persisted statuses — that start with the same plain map end
with the same plain map: every key holds the value of the last write to it. -/
theorem C19_replica_agreement (ws : List Write) (n₁ n₂ : Node) (db₁ db₂ : Db) (B : Int)
    (h₁ : db₁.strategy = .newer ∧ ClockInv n₁.clock db₁ ∧ VerInvB B db₁)
    (h₂ : db₂.strategy = .newer ∧ ClockInv n₂.clock db₂ ∧ VerInvB B db₂)
    (hB : B + ws.length < 2147483647) (hw : ∀ w ∈ ws, -1 ≤ w.version ∧ w.version ≤ B)
    (hview : db₁.view = db₂.view) :
    (applyWrites ws (n₁, db₁)).2.view = (applyWrites ws (n₂, db₂)).2.view := by
  rw [applyWrites_view ws n₁ db₁ B h₁.1 h₁.2.1 h₁.2.2 hB hw, applyWrites_view ws n₂ db₂ B h₂.1 h₂.2.1 h₂.2.2 hB hw, hview]

/-- the administrative database is created with the newer strategy -/
theorem C19_pin_admin_newer : Gen.adminStrategy = [110, 101, 119, 101, 114] := by decide

/-- a database restored without a metadata file gets the newer strategy -/
theorem C19_pin_restored_newer : Gen.noMetaStrategy = [110, 101, 119, 101, 114] := by decide

/-- non-vacuity: a stale versioned write on a newer database is answered `Set` and stored -/
example :
    let n : Node := { user := [], pwd := [], addr := [], pid := 1, role := .primary, dbs := [], idName := [],
                      sessions := [], clock := 5, members := [], pending := [], toSnapshot := [], keysMap := [], oplogValid := true }
    let r0 := n.setKeyValue (Db.new [116] 1 .newer) [107] [49] 7
    ((r0.1.setKeyValue r0.2.1 [107] [50] 0).2.2.1, ((r0.1.setKeyValue r0.2.1 [107] [50] 0).2.1.getKV [107])) = (.set [107] [50], ([50], 9)) := by
  decide

/-- non-vacuity below the markers: a write with version -3 (and one with `i32::MIN`) to a key at version 9 is
resolved like any stale write — answered `Set`, stored one version up (what seeded change C19-7 broke: it
stored the -3) -/
example :
    let n : Node := { user := [], pwd := [], addr := [], pid := 1, role := .primary, dbs := [], idName := [],
                      sessions := [], clock := 5, members := [], pending := [], toSnapshot := [], keysMap := [], oplogValid := true }
    let r0 := n.setKeyValue (Db.new [116] 1 .newer) [107] [49] 7
    ((r0.1.setKeyValue r0.2.1 [107] [50] (-3)).2.2.1, ((r0.1.setKeyValue r0.2.1 [107] [50] (-3)).2.1.getKV [107]),
     ((r0.1.setKeyValue r0.2.1 [107] [51] (-2147483648)).2.1.getKV [107])) = (.set [107] [50], ([50], 9), ([51], 9)) := by
  decide

/-- the corner the hypothesis `version ≠ -2` is next to, on the model as on the code: the first version of a
key is the written one plus one, so version -3 written to an ABSENT key stores the in-conflict marker -2,
and `keep_in_conflict_resolution` then pins it there through later writes (recorded in DESIGN §0a.4: odd,
and outside what C19 states — the version does not shrink) -/
example :
    let n : Node := { user := [], pwd := [], addr := [], pid := 1, role := .primary, dbs := [], idName := [],
                      sessions := [], clock := 5, members := [], pending := [], toSnapshot := [], keysMap := [], oplogValid := true }
    let r0 := n.setKeyValue (Db.new [116] 1 .newer) [107] [49] (-3)
    (r0.2.1.getKV [107], (r0.1.setKeyValue r0.2.1 [107] [50] (-1)).2.1.getKV [107]) = (([49], -2), ([50], -2)) := by
  decide

end Nun
