import NunVerif.Props.C06RoundTrip
import NunVerif.Props.C18
/-!
# C18 — the byte-level round trip of the `s3` strategy, and its agreement with the disk strategy

`C18_s3_roundtrip`: objects written by `s3Snapshot`, read by `s3LoadDb`, for every database.
`C18_s3_restores_what_disk_restores`: on the live data (key ↦ value, version) a start-up from the
object store and a start-up from the files of a space-reclaiming disk snapshot give the same result
— the property's claim, for every database, proved through the two byte-level round trips.
-/
namespace Nun

/-- what an entry must satisfy to go through the objects: sizes the reader accepts, UTF-8 text, an `i32` version -/
structure S3Storable (k : Bytes) (e : Entry) : Prop where
  klen : k.length < allocBound
  vlen : e.value.length < allocBound
  kutf : validUtf8 k = true
  vutf : validUtf8 e.value = true
  verLo : -2147483648 ≤ e.version
  verHi : e.version ≤ 2147483647

def s3ValueRec (e : Entry) : Bytes := le64 e.value.length ++ e.value ++ le32i (statusCode e.state)

/-- the two objects the snapshot builds for the entries `l`, the first value record at offset `va` -/
def encObjs : List (Bytes × Entry) → Nat → Bytes × Bytes
  | [], _ => ([], [])
  | (k, e) :: t, va =>
    ((encKey k e.version va) ++ (encObjs t (va + (8 + e.value.length + 4))).1,
     (s3ValueRec e) ++ (encObjs t (va + (8 + e.value.length + 4))).2)

/-- what the reader builds from them -/
def s3LoadedFrom : List (Bytes × Entry) → Nat → Nat → Nat → KV → KV
  | [], _, _, _, m => m
  | (k, e) :: t, va, pos, clock, m =>
    s3LoadedFrom t (va + (8 + e.value.length + 4)) (pos + keyRecSize k.length) (clock + 1)
      (AL.put m k { value := e.value, version := e.version, opId := clock,
                    state := if e.state = .deleted then .deleted else .ok, vaddr := va, kaddr := pos + keyRecSize k.length })

theorem take_at (pre b post : Bytes) (n pos : Nat) (hn : n = b.length) (hp : pos = pre.length) :
    ((pre ++ (b ++ post)).drop pos).take n = b := by
  subst hn; subst hp; rw [List.drop_left, List.take_left]

theorem s3ValueRec_length (e : Entry) : (s3ValueRec e).length = 8 + e.value.length + 4 := by
  simp [s3ValueRec, le64_length, le32i_length]; omega

theorem statusCode_roundtrip (s : Status) : i32OfLE (le32i (statusCode s)) = statusCode s :=
  C06_version_roundtrip _ (by cases s <;> decide) (by cases s <;> decide)

theorem statusCode_eq_one (s : Status) : (statusCode s = 1) ↔ s = .deleted := by cases s <;> decide

theorem s3LoadLoop_encObjs (l : List (Bytes × Entry)) : ∀ (kpre vpre vpost : Bytes) (fuel pos clock : Nat) (m : KV),
    (∀ p ∈ l, S3Storable p.1 p.2) → pos = kpre.length →
    vpre.length + (encObjs l vpre.length).2.length < 18446744073709551616 →
    l.length < fuel →
    s3LoadLoop (kpre ++ (encObjs l vpre.length).1) (vpre ++ ((encObjs l vpre.length).2 ++ vpost)) fuel pos m clock
      = some (s3LoadedFrom l vpre.length pos clock m, clock + l.length) := by
  induction l with
  | nil =>
    intro kpre vpre vpost fuel pos clock m _ hpos _ hfuel
    cases fuel with
    | zero => simp at hfuel
    | succ f =>
      subst hpos
      simp [encObjs, s3LoadLoop, s3LoadedFrom]
  | cons p t ih =>
    obtain ⟨k, e⟩ := p
    intro kpre vpre vpost fuel pos clock m hst hpos hfit hfuel
    have hS := hst (k, e) List.mem_cons_self
    cases fuel with
    | zero => simp at hfuel
    | succ f =>
      simp only [encObjs, s3LoadedFrom, List.length_cons] at hfit hfuel ⊢
      generalize hrest : encObjs t (vpre.length + (8 + e.value.length + 4)) = rest at hfit ⊢
      obtain ⟨krest, vrest⟩ := rest
      simp only [] at hfit ⊢
      have hvlen := s3ValueRec_length e
      have hkeys : kpre ++ (encKey k e.version vpre.length ++ krest)
          = kpre ++ (le64 k.length ++ (k ++ (le32i e.version ++ (le64 vpre.length ++ krest)))) := by
        simp [encKey, List.append_assoc]
      have hvals : vpre ++ (s3ValueRec e ++ vrest ++ vpost)
          = vpre ++ (le64 e.value.length ++ (e.value ++ (le32i (statusCode e.state) ++ (vrest ++ vpost)))) := by
        simp [s3ValueRec, List.append_assoc]
      rw [hkeys, hvals]
      have hkl : k.length < 18446744073709551616 := Nat.lt_trans hS.klen allocBound_lt
      have hvl : e.value.length < 18446744073709551616 := Nat.lt_trans hS.vlen allocBound_lt
      have hva : vpre.length < 18446744073709551616 := by omega
      have t1 := take_at kpre (le64 k.length) (k ++ (le32i e.version ++ (le64 vpre.length ++ krest))) 8 pos (le64_length _).symm hpos
      have t2 := take_at (kpre ++ le64 k.length) k (le32i e.version ++ (le64 vpre.length ++ krest)) k.length (pos + 8) rfl
        (by simp [le64_length, hpos])
      have t3 := take_at (kpre ++ le64 k.length ++ k) (le32i e.version) (le64 vpre.length ++ krest) 4 (pos + 8 + k.length) (le32i_length _).symm
        (by simp [le64_length, hpos]; omega)
      have t4 := take_at (kpre ++ le64 k.length ++ k ++ le32i e.version) (le64 vpre.length) krest 8 (pos + 8 + k.length + 4) (le64_length _).symm
        (by simp [le64_length, le32i_length, hpos]; omega)
      have t5 := take_at vpre (le64 e.value.length) (e.value ++ (le32i (statusCode e.state) ++ (vrest ++ vpost))) 8 vpre.length (le64_length _).symm rfl
      have t6 := take_at (vpre ++ le64 e.value.length) e.value (le32i (statusCode e.state) ++ (vrest ++ vpost)) e.value.length (vpre.length + 8) rfl
        (by simp [le64_length])
      have t7 := take_at (vpre ++ le64 e.value.length ++ e.value) (le32i (statusCode e.state)) (vrest ++ vpost) 4 (vpre.length + 8 + e.value.length) (le32i_length _).symm
        (by simp [le64_length]; omega)
      have d2 : (kpre ++ (le64 k.length ++ (k ++ (le32i e.version ++ (le64 vpre.length ++ krest))))).drop (pos + 8)
          = k ++ (le32i e.version ++ (le64 vpre.length ++ krest)) := by
        have : pos + 8 = (kpre ++ le64 k.length).length := by simp [le64_length, hpos]
        rw [this, ← List.append_assoc, List.drop_left]
      have hmin : min k.length ((kpre ++ (le64 k.length ++ (k ++ (le32i e.version ++ (le64 vpre.length ++ krest))))).drop (pos + 8)).length = k.length := by
        rw [d2]; simp
      simp only [List.append_assoc] at t2 t3 t4 t6 t7
      rw [s3LoadLoop]
      simp only [t1, le64_length, Nat.sub_self, List.replicate_zero, List.append_nil, C06_le64_roundtrip k.length hkl, hmin, t2, List.length_take,
        t3, le32i_length, t4, C06_le64_roundtrip vpre.length hva, t5, C06_le64_roundtrip e.value.length hvl, t6, t7,
        C06_version_roundtrip e.version hS.verLo hS.verHi, statusCode_roundtrip, statusCode_eq_one]
      have hk1 : ¬ k.length ≥ allocBound := Nat.not_le.2 hS.klen
      have hv1 : ¬ e.value.length ≥ allocBound := Nat.not_le.2 hS.vlen
      simp only [hk1, hv1, hS.kutf, hS.vutf, if_false, Bool.not_true, Bool.false_eq_true, show (8 : Nat) ≠ 0 by decide]
      have hlen' : (vpre ++ s3ValueRec e).length = vpre.length + (8 + e.value.length + 4) := by simp [hvlen]
      have hklen' : pos + 8 + k.length + 4 + 8 = (kpre ++ encKey k e.version vpre.length).length := by
        simp [C06_key_record_size, keyRecSize, hpos]; omega
      have hkr : pos + keyRecSize k.length = pos + 8 + k.length + 4 + 8 := by simp [keyRecSize]; omega
      have hfit' : (vpre ++ s3ValueRec e).length + (encObjs t (vpre ++ s3ValueRec e).length).2.length < 18446744073709551616 := by
        rw [hlen', hrest]; simp only [List.length_append, hvlen] at hfit ⊢; omega
      have h := ih (kpre ++ encKey k e.version vpre.length) (vpre ++ s3ValueRec e) vpost f (pos + 8 + k.length + 4 + 8) (clock + 1)
        (AL.put m k { value := e.value, version := e.version, opId := clock, state := if e.state = .deleted then .deleted else .ok,
                      vaddr := vpre.length, kaddr := pos + 8 + k.length + 4 + 8 })
        (fun p hp => hst p (List.mem_cons_of_mem _ hp)) hklen' hfit' (by omega)
      rw [hlen', hrest] at h
      simp only [] at h
      have e1 : kpre ++ (le64 k.length ++ (k ++ (le32i e.version ++ (le64 vpre.length ++ krest))))
          = kpre ++ encKey k e.version vpre.length ++ krest := by simp [encKey, List.append_assoc]
      have e2 : vpre ++ (le64 e.value.length ++ (e.value ++ (le32i (statusCode e.state) ++ (vrest ++ vpost))))
          = vpre ++ s3ValueRec e ++ (vrest ++ vpost) := by simp [s3ValueRec, List.append_assoc]
      rw [e1, e2, h, hkr]
      simp only [Nat.add_assoc, Nat.add_comm 1]

theorem s3Fold_objs (l : List (Bytes × Entry)) : ∀ (s : S3St), s.vaddr = s.values.length →
    (l.foldl (fun s (p : Bytes × Entry) => s3SnapKey s p.1 p.2) s).keys = s.keys ++ (encObjs l s.vaddr).1 ∧
    (l.foldl (fun s (p : Bytes × Entry) => s3SnapKey s p.1 p.2) s).values = s.values ++ (encObjs l s.vaddr).2 := by
  induction l with
  | nil => intro s _; simp [encObjs]
  | cons p t ih =>
    obtain ⟨k, e⟩ := p
    intro s hva
    simp only [List.foldl_cons]
    have h := ih (s3SnapKey s k e) (by simp [s3SnapKey, hva, le64_length, le32i_length]; omega)
    have hk1 : (s3SnapKey s k e).keys = s.keys ++ encKey k e.version s.vaddr := rfl
    have hv1 : (s3SnapKey s k e).values = s.values ++ le64 e.value.length ++ e.value ++ le32i (statusCode e.state) := rfl
    have hva1 : (s3SnapKey s k e).vaddr = s.vaddr + (8 + e.value.length + 4) := rfl
    rw [hk1, hv1, hva1] at h
    simp only [encObjs, s3ValueRec, List.append_assoc] at h ⊢
    exact h

theorem s3LoadedFrom_other (l : List (Bytes × Entry)) (k : Bytes) : ∀ (va pos c : Nat) (m : KV),
    k ∉ l.map (·.1) → AL.get? (s3LoadedFrom l va pos c m) k = AL.get? m k := by
  induction l with
  | nil => intro _ _ _ _ _; rfl
  | cons p t ih =>
    obtain ⟨k0, e0⟩ := p
    intro va pos c m h
    simp only [List.map_cons, List.mem_cons, not_or] at h
    simp only [s3LoadedFrom]
    rw [ih _ _ _ _ h.2]
    exact AL.get?_put_other _ _ (Ne.symm h.1)

theorem s3LoadedFrom_mem (l : List (Bytes × Entry)) (hn : (l.map (·.1)).Nodup) (k : Bytes) (e : Entry) : ∀ (va pos c : Nat) (m : KV),
    (k, e) ∈ l →
    ∃ e', AL.get? (s3LoadedFrom l va pos c m) k = some e' ∧ e'.value = e.value ∧ e'.version = e.version ∧
      e'.state = (if e.state = .deleted then .deleted else .ok) := by
  induction l with
  | nil => intro _ _ _ _ h; cases h
  | cons p t ih =>
    obtain ⟨k0, e0⟩ := p
    intro va pos c m hmem
    simp only [List.map_cons, List.nodup_cons] at hn
    simp only [s3LoadedFrom]
    rcases List.mem_cons.1 hmem with heq | ht
    · cases heq
      rw [s3LoadedFrom_other t k _ _ _ _ hn.1, AL.get?_put_same]
      exact ⟨_, rfl, rfl, rfl, rfl⟩
    · exact ih hn.2 _ _ _ _ ht

theorem s3_obj_names_ne (n : Bytes) : s3Prefix ++ n ++ b!"/nun.keys" ≠ s3Prefix ++ n ++ b!"/nun.values" := by
  intro h; exact absurd (List.append_cancel_left h) (by decide)

/-- **C18, byte-level round trip of the `s3` strategy.**  For every database with distinct keys whose
entries are storable, any object store, either snapshot mode, any hash order and any clocks: when
both uploads succeed, a start-up from the object store rebuilds a database in which every key of
the original — tombstones included — has the same value and version, removed keys are removed, live
keys are clean, and no other key exists. -/
theorem C18_s3_roundtrip (db : Db) (objs : Objs) (reclaim : Bool) (order : List Bytes) (clock clock' : Nat)
    (hn : AL.NoDupKeys db.map) (hs : ∀ k e, AL.get? db.map k = some e → S3Storable k e)
    (hfit : ((AL.get? (s3Snapshot db objs reclaim order clock).2.1 (s3Prefix ++ db.name ++ b!"/nun.values")).getD []).length < 18446744073709551616) :
    ∃ db' c, s3LoadDb (s3Snapshot db objs reclaim order clock).2.1 db.name clock' = some (db', c) ∧
      (∀ k e, AL.get? db.map k = some e →
          ∃ e', AL.get? db'.map k = some e' ∧ e'.value = e.value ∧ e'.version = e.version ∧
            e'.state = (if e.state = .deleted then .deleted else .ok)) ∧
      (∀ k, AL.get? db.map k = none → AL.get? db'.map k = none) := by
  obtain ⟨hnd, hmem⟩ := sortByIx_spec order db.map hn
  have hlam : (fun (s : S3St) (x : Bytes × Entry) => match x with | (k, e) => s3SnapKey s k e)
      = fun s p => s3SnapKey s p.1 p.2 := by funext s x; obtain ⟨k, e⟩ := x; rfl
  have hfold := s3Fold_objs (db.map.foldr (insertByIx order) []) ({ db, clock } : S3St) rfl
  simp only [List.nil_append] at hfold
  have hk : AL.get? (s3Snapshot db objs reclaim order clock).2.1 (s3Prefix ++ db.name ++ b!"/nun.keys")
      = some (encObjs (db.map.foldr (insertByIx order) []) 0).1 := by
    simp only [s3Snapshot, if_true, hlam]
    rw [AL.get?_put_other _ _ (s3_obj_names_ne db.name).symm, AL.get?_put_same, hfold.1]
  have hv : AL.get? (s3Snapshot db objs reclaim order clock).2.1 (s3Prefix ++ db.name ++ b!"/nun.values")
      = some (encObjs (db.map.foldr (insertByIx order) []) 0).2 := by
    simp only [s3Snapshot, if_true, hlam]
    rw [AL.get?_put_same, hfold.2]
  have hfit' : ([] : Bytes).length + (encObjs (db.map.foldr (insertByIx order) []) ([] : Bytes).length).2.length < 18446744073709551616 := by
    rw [hv] at hfit; simpa using hfit
  have hstor : ∀ p ∈ db.map.foldr (insertByIx order) [], S3Storable p.1 p.2 := by
    intro p hp
    obtain ⟨k, e⟩ := p
    exact hs k e ((AL.mem_iff_get?_of_noDup db.map k e hn).1 ((hmem (k, e)).1 hp))
  have hcount : (db.map.foldr (insertByIx order) []).length ≤ (encObjs (db.map.foldr (insertByIx order) []) 0).1.length := by
    generalize db.map.foldr (insertByIx order) [] = l
    generalize 0 = va
    induction l generalizing va with
    | nil => simp
    | cons p t ih =>
      obtain ⟨k, e⟩ := p
      have := ih (va + (8 + e.value.length + 4))
      simp only [encObjs, List.length_cons, List.length_append, C06_key_record_size, keyRecSize]
      omega
  have hload := s3LoadLoop_encObjs (db.map.foldr (insertByIx order) []) [] [] [] ((encObjs (db.map.foldr (insertByIx order) []) 0).1.length + 1) 0 clock' []
    hstor rfl hfit' (Nat.lt_succ_of_le hcount)
  simp only [List.nil_append, List.append_nil, List.length_nil] at hload
  refine ⟨{ name := db.name, id := 1, strategy := .arbiter, map := s3LoadedFrom (db.map.foldr (insertByIx order) []) 0 0 clock' [], watchers := [], conns := 0 },
          clock' + (db.map.foldr (insertByIx order) []).length, ?_, ?_, ?_⟩
  · unfold s3LoadDb
    rw [hv, hk]
    simp only [hload]
  · intro k e hg
    exact s3LoadedFrom_mem _ hnd k e 0 0 clock' [] ((hmem (k, e)).2 (AL.mem_of_get? db.map k e hg))
  · intro k hnone
    show AL.get? (s3LoadedFrom (db.map.foldr (insertByIx order) []) 0 0 clock' []) k = none
    rw [s3LoadedFrom_other]
    · rfl
    · intro hmk
      obtain ⟨p, hp, hpk⟩ := List.mem_map.1 hmk
      have := (hmem p).1 hp
      have hin : k ∈ db.map.map (·.1) := List.mem_map.2 ⟨p, this, hpk⟩
      exact absurd hnone (by rw [AL.get?_none_iff_not_mem_keys]; exact fun h => h hin)

/-- **C18: the `s3` strategy restores what the disk strategy restores** — for every database with
distinct keys and storable entries, whatever the object store and the disk held before, whatever
the hash orders and clocks: both start-ups succeed and give the same live data, namely the
database's own. -/
theorem C18_s3_restores_what_disk_restores (db : Db) (objs : Objs) (fs : Fs) (reclaim : Bool) (order order' : List Bytes) (c1 c2 c3 c4 : Nat)
    (hn : AL.NoDupKeys db.map) (hs : ∀ k e, AL.get? db.map k = some e → S3Storable k e)
    (hne : ∀ k e, AL.get? db.map k = some e → e.state ≠ .deleted → e.version ≠ -1)
    (hfitS : ((AL.get? (s3Snapshot db objs reclaim order c1).2.1 (s3Prefix ++ db.name ++ b!"/nun.values")).getD []).length < 18446744073709551616)
    (hfitD : (snapshotDb db fs true order' c3).2.1.size (valuesFile db.name) < 18446744073709551616) :
    ∃ db' m ca cb, s3LoadDb (s3Snapshot db objs reclaim order c1).2.1 db.name c2 = some (db', ca) ∧
      loadDb (snapshotDb db fs true order' c3).2.1 db.name c4 = (.ok m, cb) ∧
      ∀ k, liveView db'.map k = liveView m k ∧ liveView m k = liveView db.map k := by
  obtain ⟨db', ca, hS, hS1, hS2⟩ := C18_s3_roundtrip db objs reclaim order c1 c2 hn hs hfitS
  have hstor : ∀ k e, AL.get? db.map k = some e → e.state ≠ .deleted → Storable k e := by
    intro k e hg hd
    have h := hs k e hg
    exact ⟨h.klen, h.vlen, h.kutf, h.vutf, h.verLo, h.verHi, hne k e hg hd⟩
  obtain ⟨m, cb, hD, hD1, hD2⟩ := C06_reclaim_roundtrip db fs order' c3 c4 hn hstor hfitD
  refine ⟨db', m, ca, cb, hS, hD, ?_⟩
  intro k
  cases hg : AL.get? db.map k with
  | none =>
    have h1 := hS2 k hg
    have h2 := hD2 k (by intro e he; rw [hg] at he; cases he)
    simp [liveView, h1, h2, hg]
  | some e =>
    obtain ⟨e1, he1, hv1, hver1, hst1⟩ := hS1 k e hg
    by_cases hd : e.state = .deleted
    · have h2 := hD2 k (by intro e' he'; rw [hg] at he'; cases he'; exact hd)
      simp [liveView, he1, hst1, hd, h2, hg]
    · obtain ⟨e2, he2, hv2, hver2, hst2⟩ := hD1 k e hg hd
      simp [liveView, he1, hst1, hd, he2, hst2, hv1, hver1, hv2, hver2, hg]

/-! ## Non-vacuity: the demonstration database of `Props/C18.lean` meets the hypotheses -/
example : AL.NoDupKeys demoDb.map := by unfold AL.NoDupKeys; decide
example : ∀ k e, AL.get? demoDb.map k = some e → S3Storable k e := by
  intro k e h
  have hm := AL.mem_of_get? _ _ _ h
  simp only [demoDb, List.mem_cons, Prod.mk.injEq, List.not_mem_nil, or_false] at hm
  rcases hm with ⟨rfl, rfl⟩ | ⟨rfl, rfl⟩ | ⟨rfl, rfl⟩ | ⟨rfl, rfl⟩ <;>
    exact ⟨by decide, by decide, by decide, by decide, by decide, by decide⟩

end Nun
