import NunVerif.Proofs.DiskInv
/-!
# C06 — the incremental snapshot: invariant and byte-level round trip

`snapKey_new_step` / `snapKey_updated_step` / `snapKey_deleted_step`: one turn of the loop of
`storage_data_disk` (append-only mode) on a `New`, `Updated` or `Deleted` entry re-establishes
`DiskInv` — the in-place writes land in the key's own record, nothing else moves.
`snapFold_inc`: the whole loop.  `C06_incremental_roundtrip`: invariant + what the loader reads.
-/
namespace Nun

/-- re-establishing the invariant after a change that concerns ONE key (in memory, on disk, or both) -/
theorem diskInv_update {name : Bytes} {m : KV} {fs : Fs} {rs : List KRec} {vs : List Bytes} (hinv : DiskInv name m fs rs vs)
    (m' : KV) (fs' : Fs) (rs' : List KRec) (vs' : List Bytes) (k : Bytes)
    (hkeys : fs'.read (keysFile name) = some (encRecs rs')) (hvals : fs'.read (valuesFile name) = some (encVals vs'))
    (hnd : (rs'.map (·.key)).Nodup) (hgood : ∀ r ∈ rs', GoodRec (encVals vs') r)
    (hgv : ∀ v ∈ vs', v.length < allocBound ∧ validUtf8 v = true)
    (hoth_m : ∀ k', k' ≠ k → AL.get? m' k' = AL.get? m k')
    (hoth_off : ∀ k', k' ≠ k → offOf rs' k' = offOf rs k')
    (hoth_rec : ∀ k', k' ≠ k → getRec rs' k' = getRec rs k')
    (hk_fresh : ∀ e, AL.get? m' k = some e → e.state = .new → offOf rs' k = none)
    (hk_stored : ∀ e, AL.get? m' k = some e → e.state ≠ .new → offOf rs' k = some e.kaddr ∧
        (e.state = .ok → ∃ r, getRec rs' k = some r ∧ r.ver = e.version ∧ r.v = e.value))
    (hk_known : offOf rs' k ≠ none → validUtf8 k = true → ∃ e, AL.get? m' k = some e ∧ e.state ≠ .new)
    (hbk : ∀ r ∈ rs', r.bkey = r.key ∨ (validUtf8 r.key = false ∧ r.ver = -1)) :
    DiskInv name m' fs' rs' vs' where
  keys := hkeys
  values := hvals
  nodup := hnd
  good := hgood
  goodVals := hgv
  fresh := by
    intro k' e hg hs
    by_cases hk : k' = k
    · subst hk; exact hk_fresh e hg hs
    · rw [hoth_off k' hk]; rw [hoth_m k' hk] at hg; exact hinv.fresh k' e hg hs
  stored := by
    intro k' e hg hs
    by_cases hk : k' = k
    · subst hk; exact hk_stored e hg hs
    · rw [hoth_off k' hk, hoth_rec k' hk]; rw [hoth_m k' hk] at hg; exact hinv.stored k' e hg hs
  known := by
    intro k' ho hu
    by_cases hk : k' = k
    · subst hk; exact hk_known ho hu
    · rw [hoth_off k' hk] at ho; rw [hoth_m k' hk]; exact hinv.known k' ho hu
  bk := hbk

theorem bkey_of_valid {name : Bytes} {m : KV} {fs : Fs} {rs : List KRec} {vs : List Bytes} (hinv : DiskInv name m fs rs vs)
    (r : KRec) (hr : r ∈ rs) (k : Bytes) (hk : r.key = k) (hu : validUtf8 k = true) : r.bkey = k := by
  rcases hinv.bk r hr with h | ⟨h, _⟩
  · rw [h, hk]
  · rw [hk, hu] at h; cases h

theorem read_pwrite_same (fs : Fs) (f : Bytes) (pos : Nat) (d : Bytes) :
    (fs.pwrite f pos d).read f = some (pwriteBytes ((fs.read f).getD []) pos d) := by simp [Fs.pwrite, Fs.read]
theorem read_pwrite_other (fs : Fs) (f g : Bytes) (pos : Nat) (d : Bytes) (h : f ≠ g) : (fs.pwrite f pos d).read g = fs.read g := by
  simp only [Fs.pwrite, Fs.read]; exact AL.get?_put_other _ _ h

theorem encVals_snoc (vs : List Bytes) (v : Bytes) : encVals (vs ++ [v]) = encVals vs ++ encValue v := by
  simp [encVals_append, encVals_cons, encVals]

theorem encRecs_snoc (rs : List KRec) (r : KRec) : encRecs (rs ++ [r]) = encRecs rs ++ r.enc := by
  simp [encRecs_append, encRecs_cons, encRecs]

/-- what one turn of the incremental snapshot loop guarantees -/
structure StepOut (name : Bytes) (s s' : SnapSt) (rs rs' : List KRec) (vs vs' : List Bytes) (k : Bytes) : Prop where
  inv : DiskInv name s'.db.map s'.fs rs' vs'
  hva : s'.vaddr = (encVals vs').length
  hka : s'.kaddr = (encRecs rs').length
  oth_m : ∀ k', k' ≠ k → AL.get? s'.db.map k' = AL.get? s.db.map k'
  oth_rec : ∀ k', k' ≠ k → getRec rs' k' = getRec rs k'
  clean : CleanKey s'.db.map rs' k
  live : ∀ k', liveView s'.db.map k' = liveView s.db.map k'

theorem snapKey_new_step (name : Bytes) (s : SnapSt) (rs : List KRec) (vs : List Bytes) (k : Bytes) (e : Entry)
    (hinv : DiskInv name s.db.map s.fs rs vs) (hva : s.vaddr = (encVals vs).length) (hka : s.kaddr = (encRecs rs).length)
    (hget : AL.get? s.db.map k = some e) (hge : GoodEntry k e) (hfit : s.vaddr < 18446744073709551616) (hst : e.state = .new) :
    StepOut name s (snapKey false name s k e) rs (rs ++ [⟨k, k, e.version, s.vaddr, e.value⟩]) vs (vs ++ [e.value]) k := by
  have hfresh := hinv.fresh k e hget hst
  have hnotin : k ∉ rs.map (·.key) := (offOf_none_iff rs k).1 hfresh
  have hs' : snapKey false name s k e =
      { db := s.db.setValueVersion k e.value e.version .ok s.vaddr s.kaddr s.clock,
        fs := (s.fs.append (valuesFile name) (encValue e.value)).append (keysFile name) (encKey k e.version s.vaddr),
        vaddr := s.vaddr + (8 + e.value.length + 4), kaddr := s.kaddr + keyRecSize k.length, clock := s.clock + 1 } := by
    simp [snapKey, hst]
  rw [hs']
  have hkf : ((s.fs.append (valuesFile name) (encValue e.value)).append (keysFile name) (encKey k e.version s.vaddr)).read (keysFile name)
      = some (encRecs (rs ++ [⟨k, k, e.version, s.vaddr, e.value⟩])) := by
    rw [read_append_same, read_append_other _ _ _ _ (keys_ne_values name).symm, hinv.keys, encRecs_snoc]; rfl
  have hvf : ((s.fs.append (valuesFile name) (encValue e.value)).append (keysFile name) (encKey k e.version s.vaddr)).read (valuesFile name)
      = some (encVals (vs ++ [e.value])) := by
    rw [read_append_other _ _ _ _ (keys_ne_values name), read_append_same, hinv.values, encVals_snoc]; rfl
  have hnewrec : GoodRec (encVals (vs ++ [e.value])) ⟨k, k, e.version, s.vaddr, e.value⟩ :=
    { klen := hge.klen, kutf := hge.kutf, verLo := hge.verLo, verHi := hge.verHi, vaFit := hfit, vlen := hge.vlen, vutf := hge.vutf,
      val := ⟨encVals vs, [], by rw [encVals_snoc]; simp, hva.symm⟩ }
  have hlive : ∀ k', liveView (s.db.setValueVersion k e.value e.version .ok s.vaddr s.kaddr s.clock).map k' = liveView s.db.map k' := by
    intro k'
    by_cases hk' : k' = k
    · subst hk'; simp [liveView, Db.setValueVersion, hget, hst]
    · simp only [liveView, Db.setValueVersion]; rw [AL.get?_put_other _ _ (Ne.symm hk')]
  refine { inv := ?_, hva := ?_, hka := ?_, oth_m := ?_, oth_rec := ?_, clean := ?_, live := hlive }
  · apply diskInv_update hinv _ _ _ _ k hkf hvf
    · rw [List.map_append, List.nodup_append]
      refine ⟨hinv.nodup, by simp, ?_⟩
      intro a ha b hb; simp at hb; subst hb; intro hab; subst hab; exact hnotin ha
    · intro r hr
      rcases List.mem_append.1 hr with h | h
      · rw [encVals_snoc]; exact goodRec_append _ _ _ (hinv.good r h)
      · simp at h; subst h; exact hnewrec
    · intro v hv
      rcases List.mem_append.1 hv with h | h
      · exact hinv.goodVals v h
      · simp at h; subst h; exact ⟨hge.vlen, hge.vutf⟩
    · intro k' hk'; simp only [Db.setValueVersion]; exact AL.get?_put_other _ _ (Ne.symm hk')
    · intro k' hk'
      by_cases hm : k' ∈ rs.map (·.key)
      · exact offOf_append_mem rs _ k' hm
      · rw [(offOf_none_iff rs k').2 hm, offOf_none_iff]
        simp only [List.map_append, List.map_cons, List.map_nil, List.mem_append, List.mem_singleton, not_or]
        exact ⟨hm, hk'⟩
    · intro k' hk'
      unfold getRec
      rw [List.find?_append]
      simp only [List.find?_cons, List.find?_nil]
      have : ¬ k = k' := fun h => hk' h.symm
      simp [this]
    · intro e' hg' hs'
      simp only [Db.setValueVersion, AL.get?_put_same, Option.some.injEq] at hg'
      subst hg'; simp at hs'
    · intro e' hg' _
      simp only [Db.setValueVersion, AL.get?_put_same, Option.some.injEq] at hg'
      subst hg'
      refine ⟨?_, fun _ => ⟨_, getRec_append_new rs ⟨k, k, e.version, s.vaddr, e.value⟩ hnotin, rfl, rfl⟩⟩
      simp only []
      rw [hka]; exact offOf_append_new rs ⟨k, k, e.version, s.vaddr, e.value⟩ hnotin
    · intro _ _
      exact ⟨_, by simp only [Db.setValueVersion]; exact AL.get?_put_same _ _ _, by simp⟩
    · intro r hr
      rcases List.mem_append.1 hr with h | h
      · exact hinv.bk r h
      · simp at h; subst h; exact Or.inl rfl
  · show s.vaddr + (8 + e.value.length + 4) = _
    rw [encVals_snoc, List.length_append, C06_value_record_size, hva]
  · show s.kaddr + keyRecSize k.length = _
    rw [encRecs_snoc, List.length_append, KRec.enc_length, hka]
  · intro k' hk'; simp only [Db.setValueVersion]; exact AL.get?_put_other _ _ (Ne.symm hk')
  · intro k' hk'
    unfold getRec
    rw [List.find?_append]
    simp only [List.find?_cons, List.find?_nil]
    have : ¬ k = k' := fun h => hk' h.symm
    simp [this]
  · intro e' hg'
    simp only [Db.setValueVersion, AL.get?_put_same, Option.some.injEq] at hg'
    subst hg'
    exact Or.inl ⟨rfl, _, getRec_append_new rs ⟨k, k, e.version, s.vaddr, e.value⟩ hnotin, rfl, rfl⟩

theorem encRecs_length_setRec (rs : List KRec) (k : Bytes) (ver : Int) (va : Nat) (v : Bytes) :
    (encRecs (setRec rs k ver va v)).length = (encRecs rs).length := by
  induction rs with
  | nil => rfl
  | cons r t ih =>
    have : setRec (r :: t) k ver va v = (if r.key = k then { r with ver := ver, va := va, v := v } else r) :: setRec t k ver va v := by
      simp [setRec]
    rw [this, encRecs_cons, encRecs_cons, List.length_append, List.length_append, ih, KRec.enc_length, KRec.enc_length]
    split <;> rfl

theorem mem_keys_of_offOf {rs : List KRec} {k : Bytes} {ka : Nat} (h : offOf rs k = some ka) : k ∈ rs.map (·.key) := by
  by_cases hm : k ∈ rs.map (·.key)
  · exact hm
  · rw [(offOf_none_iff rs k).2 hm] at h; cases h

/-- the bytes of the keys file after the two in-place writes of `update_key` -/
theorem keys_after_inplace (name : Bytes) (fs : Fs) (rs : List KRec) (hn : (rs.map (·.key)).Nodup) (k : Bytes) (ka : Nat)
    (ver : Int) (va : Nat) (v : Bytes) (hk : fs.read (keysFile name) = some (encRecs rs)) (hb : ∀ r ∈ rs, r.key = k → r.bkey = k)
    (ho : offOf rs k = some ka) :
    ((fs.pwrite (keysFile name) (ka + keyRecSize k.length - 12) (le32i ver)).pwrite (keysFile name) (ka + keyRecSize k.length - 12 + 4) (le64 va)).read (keysFile name)
      = some (encRecs (setRec rs k ver va v)) := by
  obtain ⟨pre, post, ver0, va0, h1, h2, h3⟩ := encRecs_setRec rs hn k ka ver va v hb ho
  rw [read_pwrite_same, read_pwrite_same, hk]
  simp only [Option.getD_some]
  rw [h1, ← h2, pwrite_record, h3]

theorem snapKey_updated_step (name : Bytes) (s : SnapSt) (rs : List KRec) (vs : List Bytes) (k : Bytes) (e : Entry)
    (hinv : DiskInv name s.db.map s.fs rs vs) (hva : s.vaddr = (encVals vs).length) (hka : s.kaddr = (encRecs rs).length)
    (hget : AL.get? s.db.map k = some e) (hge : GoodEntry k e) (hfit : s.vaddr < 18446744073709551616) (hst : e.state = .updated) :
    StepOut name s (snapKey false name s k e) rs (setRec rs k e.version s.vaddr e.value) vs (vs ++ [e.value]) k := by
  have hoff := (hinv.stored k e hget (by rw [hst]; decide)).1
  have hmem := mem_keys_of_offOf hoff
  have hs' : snapKey false name s k e =
      { s with db := s.db.setValueVersion k e.value e.version .ok s.vaddr e.kaddr s.clock,
               fs := ((s.fs.append (valuesFile name) (encValue e.value)).pwrite (keysFile name) (e.kaddr + keyRecSize k.length - 12) (le32i e.version)).pwrite
                       (keysFile name) (e.kaddr + keyRecSize k.length - 12 + 4) (le64 s.vaddr),
               vaddr := s.vaddr + (8 + e.value.length + 4), clock := s.clock + 1 } := by
    simp [snapKey, hst]
  rw [hs']
  have hk0 : (s.fs.append (valuesFile name) (encValue e.value)).read (keysFile name) = some (encRecs rs) := by
    rw [read_append_other _ _ _ _ (keys_ne_values name).symm, hinv.keys]
  have hb : ∀ r ∈ rs, r.key = k → r.bkey = k := fun r hr hk => bkey_of_valid hinv r hr k hk hge.kutf
  have hkf := keys_after_inplace name (s.fs.append (valuesFile name) (encValue e.value)) rs hinv.nodup k e.kaddr e.version s.vaddr e.value hk0 hb hoff
  have hvf : (((s.fs.append (valuesFile name) (encValue e.value)).pwrite (keysFile name) (e.kaddr + keyRecSize k.length - 12) (le32i e.version)).pwrite
        (keysFile name) (e.kaddr + keyRecSize k.length - 12 + 4) (le64 s.vaddr)).read (valuesFile name) = some (encVals (vs ++ [e.value])) := by
    rw [read_pwrite_other _ _ _ _ _ (keys_ne_values name), read_pwrite_other _ _ _ _ _ (keys_ne_values name), read_append_same, hinv.values, encVals_snoc]; rfl
  obtain ⟨rk, hrk, hrkk, hrkver, hrkva, hrkv⟩ := getRec_setRec_same rs k e.version s.vaddr e.value hmem
  have hlive : ∀ k', liveView (s.db.setValueVersion k e.value e.version .ok s.vaddr e.kaddr s.clock).map k' = liveView s.db.map k' := by
    intro k'
    by_cases hk' : k' = k
    · subst hk'; simp [liveView, Db.setValueVersion, hget, hst]
    · simp only [liveView, Db.setValueVersion]; rw [AL.get?_put_other _ _ (Ne.symm hk')]
  refine { inv := ?_, hva := ?_, hka := ?_, oth_m := ?_, oth_rec := ?_, clean := ?_, live := hlive }
  · apply diskInv_update hinv _ _ _ _ k hkf hvf
    · rw [keys_setRec]; exact hinv.nodup
    · intro r hr
      rcases mem_setRec rs k e.version s.vaddr e.value r hr with ⟨h, _⟩ | ⟨_, h2, h3, h4, r0, hr0, hr0k, hbk0⟩
      · rw [encVals_snoc]; exact goodRec_append _ _ _ (hinv.good r h)
      · have h1 : r.bkey = k := by rw [hbk0]; exact hb r0 hr0 hr0k
        exact { klen := by rw [h1]; exact hge.klen, kutf := by rw [h1]; exact hge.kutf, verLo := by rw [h2]; exact hge.verLo,
                verHi := by rw [h2]; exact hge.verHi, vaFit := by rw [h3]; exact hfit, vlen := by rw [h4]; exact hge.vlen,
                vutf := by rw [h4]; exact hge.vutf,
                val := by rw [h3, h4]; exact ⟨encVals vs, [], by rw [encVals_snoc]; simp, hva.symm⟩ }
    · intro v hv
      rcases List.mem_append.1 hv with h | h
      · exact hinv.goodVals v h
      · simp at h; subst h; exact ⟨hge.vlen, hge.vutf⟩
    · intro k' hk'; simp only [Db.setValueVersion]; exact AL.get?_put_other _ _ (Ne.symm hk')
    · intro k' _; exact offOf_setRec rs k k' _ _ _
    · intro k' hk'; exact getRec_setRec_other rs k k' _ _ _ (Ne.symm hk')
    · intro e' hg' hs'
      simp only [Db.setValueVersion, AL.get?_put_same, Option.some.injEq] at hg'
      subst hg'; simp at hs'
    · intro e' hg' _
      simp only [Db.setValueVersion, AL.get?_put_same, Option.some.injEq] at hg'
      subst hg'
      exact ⟨by rw [offOf_setRec]; exact hoff, fun _ => ⟨rk, hrk, hrkver, hrkv⟩⟩
    · intro _ _
      exact ⟨_, by simp only [Db.setValueVersion]; exact AL.get?_put_same _ _ _, by simp⟩
    · intro r hr
      rcases mem_setRec rs k e.version s.vaddr e.value r hr with ⟨h, _⟩ | ⟨h1, _, _, _, r0, hr0, hr0k, hbk0⟩
      · exact hinv.bk r h
      · exact Or.inl (by rw [hbk0, hb r0 hr0 hr0k, h1])
  · show s.vaddr + (8 + e.value.length + 4) = _
    rw [encVals_snoc, List.length_append, C06_value_record_size, hva]
  · show s.kaddr = _
    rw [encRecs_length_setRec, hka]
  · intro k' hk'; simp only [Db.setValueVersion]; exact AL.get?_put_other _ _ (Ne.symm hk')
  · intro k' hk'; exact getRec_setRec_other rs k k' _ _ _ (Ne.symm hk')
  · intro e' hg'
    simp only [Db.setValueVersion, AL.get?_put_same, Option.some.injEq] at hg'
    subst hg'
    exact Or.inl ⟨rfl, rk, hrk, hrkver, hrkv⟩

theorem vs_nonempty_of_valAt (vs : List Bytes) (va : Nat) (v : Bytes) (h : ValAt (encVals vs) va v) : vs ≠ [] := by
  intro hv; subst hv
  obtain ⟨pre, post, h1, _⟩ := h
  have : (encVals ([] : List Bytes)).length = (pre ++ (encValue v ++ post)).length := by rw [h1]
  simp [encVals, C06_value_record_size] at this
  omega

theorem snapKey_deleted_step (name : Bytes) (s : SnapSt) (rs : List KRec) (vs : List Bytes) (k : Bytes) (e : Entry)
    (hinv : DiskInv name s.db.map s.fs rs vs) (hva : s.vaddr = (encVals vs).length) (hka : s.kaddr = (encRecs rs).length)
    (hget : AL.get? s.db.map k = some e) (hge : GoodEntry k e) (hst : e.state = .deleted) :
    ∃ v0, StepOut name s (snapKey false name s k e) rs (setRec rs k (-1) 0 v0) vs vs k := by
  have hoff := (hinv.stored k e hget (by rw [hst]; decide)).1
  have hmem := mem_keys_of_offOf hoff
  -- the values file is not empty: the key's own record points into it
  obtain ⟨r0, hr0, _⟩ := List.mem_map.1 hmem
  have hne := vs_nonempty_of_valAt vs r0.va r0.v (hinv.good r0 hr0).val
  obtain ⟨v0, vt, hvs⟩ := List.exists_cons_of_ne_nil hne
  refine ⟨v0, ?_⟩
  have hs' : snapKey false name s k e =
      { s with fs := (s.fs.pwrite (keysFile name) (e.kaddr + keyRecSize k.length - 12) (le32i (-1))).pwrite
                       (keysFile name) (e.kaddr + keyRecSize k.length - 12 + 4) (le64 0) } := by
    simp [snapKey, hst]
  rw [hs']
  have hb : ∀ r ∈ rs, r.key = k → r.bkey = k := fun r hr hk => bkey_of_valid hinv r hr k hk hge.kutf
  have hkf := keys_after_inplace name s.fs rs hinv.nodup k e.kaddr (-1) 0 v0 hinv.keys hb hoff
  have hvf : ((s.fs.pwrite (keysFile name) (e.kaddr + keyRecSize k.length - 12) (le32i (-1))).pwrite
        (keysFile name) (e.kaddr + keyRecSize k.length - 12 + 4) (le64 0)).read (valuesFile name) = some (encVals vs) := by
    rw [read_pwrite_other _ _ _ _ _ (keys_ne_values name), read_pwrite_other _ _ _ _ _ (keys_ne_values name), hinv.values]
  have hv0 := hinv.goodVals v0 (by rw [hvs]; exact List.mem_cons_self)
  obtain ⟨rk, hrk, hrkk, hrkver, hrkva, hrkv⟩ := getRec_setRec_same rs k (-1) 0 v0 hmem
  refine { inv := ?_, hva := hva, hka := ?_, oth_m := fun _ _ => rfl, oth_rec := ?_, clean := ?_, live := fun _ => rfl }
  · apply diskInv_update hinv _ _ _ _ k hkf hvf
    · rw [keys_setRec]; exact hinv.nodup
    · intro r hr
      rcases mem_setRec rs k (-1) 0 v0 r hr with ⟨h, _⟩ | ⟨_, h2, h3, h4, r0, hr0, hr0k, hbk0⟩
      · exact hinv.good r h
      · have h1 : r.bkey = k := by rw [hbk0]; exact hb r0 hr0 hr0k
        exact { klen := by rw [h1]; exact hge.klen, kutf := by rw [h1]; exact hge.kutf, verLo := by rw [h2]; decide,
                verHi := by rw [h2]; decide, vaFit := by rw [h3]; decide, vlen := by rw [h4]; exact hv0.1,
                vutf := by rw [h4]; exact hv0.2,
                val := by rw [h3, h4]; exact ⟨[], encVals vt, by rw [hvs, encVals_cons]; simp, rfl⟩ }
    · exact hinv.goodVals
    · intro k' _; rfl
    · intro k' _; exact offOf_setRec rs k k' _ _ _
    · intro k' hk'; exact getRec_setRec_other rs k k' _ _ _ (Ne.symm hk')
    · intro e' hg' hs'
      rw [hget] at hg'; cases hg'; rw [hst] at hs'; cases hs'
    · intro e' hg' _
      rw [hget] at hg'; cases hg'
      exact ⟨by rw [offOf_setRec]; exact hoff, fun h => by rw [hst] at h; cases h⟩
    · intro _ _; exact ⟨e, hget, by rw [hst]; decide⟩
    · intro r hr
      rcases mem_setRec rs k (-1) 0 v0 r hr with ⟨h, _⟩ | ⟨h1, _, _, _, r0, hr0, hr0k, hbk0⟩
      · exact hinv.bk r h
      · exact Or.inl (by rw [hbk0, hb r0 hr0 hr0k, h1])
  · show s.kaddr = _
    rw [encRecs_length_setRec, hka]
  · intro k' hk'; exact getRec_setRec_other rs k k' _ _ _ (Ne.symm hk')
  · intro e' hg'
    rw [hget] at hg'; cases hg'
    exact Or.inr ⟨hst, rk, hrk, hrkver⟩

def growth : List (Bytes × Entry) → Nat
  | [] => 0
  | (_, e) :: t => (8 + e.value.length + 4) + growth t

/-- the loop of an incremental snapshot over the entries that are not clean -/
theorem snapFold_inc (name : Bytes) (l : List (Bytes × Entry)) : ∀ (s : SnapSt) (rs : List KRec) (vs : List Bytes),
    (l.map (·.1)).Nodup →
    DiskInv name s.db.map s.fs rs vs → s.vaddr = (encVals vs).length → s.kaddr = (encRecs rs).length →
    (∀ p ∈ l, AL.get? s.db.map p.1 = some p.2 ∧ p.2.state ≠ .ok ∧ GoodEntry p.1 p.2) →
    (encVals vs).length + growth l < 18446744073709551616 →
    ∃ rs' vs', let s' := l.foldl (fun s (p : Bytes × Entry) => snapKey false name s p.1 p.2) s
      DiskInv name s'.db.map s'.fs rs' vs' ∧
      (∀ k, k ∈ l.map (·.1) → CleanKey s'.db.map rs' k) ∧
      (∀ k, k ∉ l.map (·.1) → AL.get? s'.db.map k = AL.get? s.db.map k ∧ getRec rs' k = getRec rs k) ∧
      (∀ k, liveView s'.db.map k = liveView s.db.map k) := by
  induction l with
  | nil => intro s rs vs _ hinv _ _ _ _; exact ⟨rs, vs, hinv, by simp, fun _ _ => ⟨rfl, rfl⟩, fun _ => rfl⟩
  | cons p t ih =>
    obtain ⟨k, e⟩ := p
    intro s rs vs hnd hinv hva hka hall hfit
    simp only [List.map_cons, List.nodup_cons] at hnd
    obtain ⟨hget, hnok, hge⟩ := hall (k, e) List.mem_cons_self
    simp only [growth] at hfit
    have hfit0 : s.vaddr < 18446744073709551616 := by rw [hva]; omega
    -- one turn
    have hstep : ∃ rs1 vs1, StepOut name s (snapKey false name s k e) rs rs1 vs vs1 k ∧ (encVals vs1).length ≤ (encVals vs).length + (8 + e.value.length + 4) := by
      cases hst : e.state with
      | ok => exact absurd hst hnok
      | new => exact ⟨_, _, snapKey_new_step name s rs vs k e hinv hva hka hget hge hfit0 hst, by rw [encVals_snoc, List.length_append, C06_value_record_size]; exact Nat.le_refl _⟩
      | updated => exact ⟨_, _, snapKey_updated_step name s rs vs k e hinv hva hka hget hge hfit0 hst, by rw [encVals_snoc, List.length_append, C06_value_record_size]; exact Nat.le_refl _⟩
      | deleted =>
        obtain ⟨v0, h⟩ := snapKey_deleted_step name s rs vs k e hinv hva hka hget hge hst
        exact ⟨_, _, h, by omega⟩
    obtain ⟨rs1, vs1, hso, hgrow⟩ := hstep
    have hall' : ∀ p ∈ t, AL.get? (snapKey false name s k e).db.map p.1 = some p.2 ∧ p.2.state ≠ .ok ∧ GoodEntry p.1 p.2 := by
      intro p hp
      have hne : p.1 ≠ k := by
        intro h; exact hnd.1 (List.mem_map.2 ⟨p, hp, h⟩)
      have := hall p (List.mem_cons_of_mem _ hp)
      exact ⟨by rw [hso.oth_m p.1 hne]; exact this.1, this.2⟩
    obtain ⟨rs2, vs2, h1, h2, h3, h4⟩ := ih (snapKey false name s k e) rs1 vs1 hnd.2 hso.inv hso.hva hso.hka hall' (by omega)
    refine ⟨rs2, vs2, ?_⟩
    simp only [List.foldl_cons]
    refine ⟨h1, ?_, ?_, ?_⟩
    · intro k' hk'
      simp only [List.map_cons, List.mem_cons] at hk'
      rcases hk' with hk' | hk'
      · subst hk'
        -- the key was cleaned by this turn and not touched afterwards
        obtain ⟨hm, hr⟩ := h3 k' hnd.1
        intro e' hg'
        rw [hm] at hg'
        rcases hso.clean e' hg' with ⟨ha, r, hb, hc⟩ | ⟨ha, r, hb, hc⟩
        · exact Or.inl ⟨ha, r, by rw [hr]; exact hb, hc⟩
        · exact Or.inr ⟨ha, r, by rw [hr]; exact hb, hc⟩
      · exact h2 k' hk'
    · intro k' hk'
      simp only [List.map_cons, List.mem_cons, not_or] at hk'
      obtain ⟨hm, hr⟩ := h3 k' hk'.2
      exact ⟨by rw [hm, hso.oth_m k' hk'.1], by rw [hr, hso.oth_rec k' hk'.1]⟩
    · intro k'; rw [h4, hso.live]

theorem getRec_none_of_not_mem (rs : List KRec) (k : Bytes) (h : k ∉ rs.map (·.key)) : getRec rs k = none := by
  unfold getRec; rw [List.find?_eq_none]; intro r hr; simp only [decide_eq_true_eq]; intro hk
  exact h (List.mem_map.2 ⟨r, hr, hk⟩)

/-- what the loader's map holds for a key, read off the record list -/
theorem loadedRecs_get (rs : List KRec) (hn : (rs.map (·.key)).Nodup) (hbk : ∀ r ∈ rs, r.ver ≠ -1 → r.bkey = r.key) (k : Bytes) :
    ∀ (ka c : Nat) (m : KV),
    (getRec rs k = none → AL.get? (loadedRecs rs ka c m) k = AL.get? m k) ∧
    (∀ r, getRec rs k = some r → r.ver = -1 → AL.get? (loadedRecs rs ka c m) k = AL.get? m k) ∧
    (∀ r, getRec rs k = some r → r.ver ≠ -1 →
      ∃ e', AL.get? (loadedRecs rs ka c m) k = some e' ∧ e'.value = r.v ∧ e'.version = r.ver ∧ e'.state = .ok) := by
  induction rs with
  | nil => intro ka c m; simp [getRec, loadedRecs]
  | cons r t ih =>
    intro ka c m
    simp only [List.map_cons, List.nodup_cons] at hn
    have hbk' : ∀ x ∈ t, x.ver ≠ -1 → x.bkey = x.key := fun x hx => hbk x (List.mem_cons_of_mem _ hx)
    by_cases hk : r.key = k
    · -- this record is the key's; the rest of the list does not mention it
      have hnot : k ∉ t.map (·.key) := hk ▸ hn.1
      have hrest := fun ka c m => (ih hn.2 hbk' ka c m).1 (getRec_none_of_not_mem t k hnot)
      have hget : getRec (r :: t) k = some r := by simp [getRec, hk]
      refine ⟨?_, ?_, ?_⟩
      · rw [hget]; intro h; cases h
      · intro r' hr' hv
        rw [hget] at hr'; cases hr'
        simp only [loadedRecs, hv, bne_self_eq_false, Bool.false_eq_true, if_false]
        exact hrest _ _ _
      · intro r' hr' hv
        rw [hget] at hr'; cases hr'
        have : (r.ver != -1) = true := by simpa using hv
        simp only [loadedRecs, this, if_true]
        rw [hrest, hbk r List.mem_cons_self hv, hk, AL.get?_put_same]
        exact ⟨_, rfl, rfl, rfl, rfl⟩
    · have hget : getRec (r :: t) k = getRec t k := by simp [getRec, hk]
      rw [hget]
      simp only [loadedRecs]
      split
      · rename_i hv
        have hv' : r.ver ≠ -1 := by simpa using hv
        have hkb : r.bkey ≠ k := by rw [hbk r List.mem_cons_self hv']; exact hk
        obtain ⟨h1, h2, h3⟩ := ih hn.2 hbk' (ka + keyRecSize r.bkey.length) (c + 1)
          (AL.put m r.bkey { value := r.v, version := r.ver, opId := c, state := .ok, vaddr := r.va, kaddr := ka })
        refine ⟨fun h => by rw [h1 h, AL.get?_put_other _ _ hkb], fun r' hr' hv => by rw [h2 r' hr' hv, AL.get?_put_other _ _ hkb], h3⟩
      · exact ih hn.2 hbk' _ _ _

theorem growth_insertByIx (o : List Bytes) (x : Bytes × Entry) (l : List (Bytes × Entry)) : growth (insertByIx o x l) = growth (x :: l) := by
  induction l with
  | nil => rfl
  | cons y ys ih =>
    simp only [insertByIx]
    split
    · obtain ⟨_, _⟩ := x; obtain ⟨_, _⟩ := y
      simp only [growth] at ih ⊢; rw [ih]; omega
    · rfl

theorem growth_sort (o : List Bytes) (l : List (Bytes × Entry)) : growth (l.foldr (insertByIx o) []) = growth l := by
  induction l with
  | nil => rfl
  | cons x xs ih =>
    simp only [List.foldr_cons]; rw [growth_insertByIx]
    obtain ⟨_, _⟩ := x; simp only [growth, ih]

theorem growth_filter (p : Bytes × Entry → Bool) (l : List (Bytes × Entry)) : growth (l.filter p) ≤ growth l := by
  induction l with
  | nil => exact Nat.le_refl _
  | cons x xs ih =>
    obtain ⟨k, e⟩ := x
    simp only [List.filter_cons]
    split
    · simp only [growth]; omega
    · simp only [growth]; omega

theorem diskInv_of_reads {name : Bytes} {m : KV} {fs fs' : Fs} {rs : List KRec} {vs : List Bytes} (h : DiskInv name m fs rs vs)
    (hk : fs'.read (keysFile name) = fs.read (keysFile name)) (hv : fs'.read (valuesFile name) = fs.read (valuesFile name)) :
    DiskInv name m fs' rs vs :=
  { h with keys := by rw [hk]; exact h.keys, values := by rw [hv]; exact h.values }

/-- an incremental snapshot keeps both data files in place (it only creates a file that is missing) -/
theorem inc_files_kept (fs : Fs) (name : Bytes) (ks vs : Bytes) (hk : fs.read (keysFile name) = some ks) (hv : fs.read (valuesFile name) = some vs) :
    let fs1 : Fs := if false && (fs.read (keysFile name)).isSome then AL.erase fs (keysFile name) else fs
    let fs2 : Fs := if (fs1.read (keysFile name)).isNone then AL.put fs1 (keysFile name) [] else fs1
    let fs3 : Fs := if false && (fs2.read (valuesFile name)).isSome then AL.erase fs2 (valuesFile name) else fs2
    let fs4 : Fs := if (fs3.read (valuesFile name)).isNone then AL.put fs3 (valuesFile name) [] else fs3
    fs4 = fs := by
  simp [hk, hv]

/-- **C06, incremental snapshot: invariant and byte-level round trip.**  Whenever memory and disk are
linked by `DiskInv` (every non-`New` entry has its record at its `kaddr`, clean entries' records
match), an incremental snapshot — in-place updates of persisted keys, appended records for new
keys, in-place tombstones — re-establishes the invariant, and loading the files gives exactly the
live data of the database. -/
theorem C06_incremental_roundtrip (db : Db) (fs : Fs) (rs : List KRec) (vs : List Bytes) (order : List Bytes) (clock clock' : Nat)
    (hinv : DiskInv db.name db.map fs rs vs) (hn : AL.NoDupKeys db.map)
    (hgood : ∀ k e, AL.get? db.map k = some e → GoodEntry k e)
    (hne : ∀ k e, AL.get? db.map k = some e → e.state ≠ .deleted → e.version ≠ -1)
    (hfit : (encVals vs).length + growth db.map < 18446744073709551616) :
    ∃ rs' vs', DiskInv db.name (snapshotDb db fs false order clock).1.map (snapshotDb db fs false order clock).2.1 rs' vs' ∧
      (∀ k, CleanKey (snapshotDb db fs false order clock).1.map rs' k) ∧
      (∀ k, liveView (snapshotDb db fs false order clock).1.map k = liveView db.map k) ∧
      ∃ m c, loadDb (snapshotDb db fs false order clock).2.1 db.name clock' = (.ok m, c) ∧ ∀ k, liveView m k = liveView db.map k := by
  -- the entries the loop visits
  let todo := (db.map.filter fun (x : Bytes × Entry) => x.2.state != .ok || false).foldr (insertByIx order) []
  have hfl : (db.map.filter fun (x : Bytes × Entry) => match x with | (_, e) => e.state != .ok || false)
      = db.map.filter fun (x : Bytes × Entry) => x.2.state != .ok || false := by
    apply List.filter_congr; intro x _; obtain ⟨_, _⟩ := x; rfl
  have hfnd : ((db.map.filter fun (x : Bytes × Entry) => x.2.state != .ok || false).map (·.1)).Nodup :=
    List.Nodup.sublist (List.Sublist.map _ List.filter_sublist) hn
  obtain ⟨htnd, htmem⟩ := sortByIx_spec order _ hfnd
  have hsnap : snapshotDb db fs false order clock =
      ((todo.foldl (fun s (p : Bytes × Entry) => snapKey false db.name s p.1 p.2)
          ({ db := db, fs := fs, vaddr := fs.size (valuesFile db.name), kaddr := fs.size (keysFile db.name), clock := clock } : SnapSt)).db,
       (todo.foldl (fun s (p : Bytes × Entry) => snapKey false db.name s p.1 p.2)
          ({ db := db, fs := fs, vaddr := fs.size (valuesFile db.name), kaddr := fs.size (keysFile db.name), clock := clock } : SnapSt)).fs.writeMeta db,
       (todo.foldl (fun s (p : Bytes × Entry) => snapKey false db.name s p.1 p.2)
          ({ db := db, fs := fs, vaddr := fs.size (valuesFile db.name), kaddr := fs.size (keysFile db.name), clock := clock } : SnapSt)).clock) := by
    have hlam : (fun (s : SnapSt) (x : Bytes × Entry) => match x with | (k, e) => snapKey false db.name s k e)
        = fun s p => snapKey false db.name s p.1 p.2 := by funext s x; obtain ⟨k, e⟩ := x; rfl
    have hkeep := inc_files_kept fs db.name _ _ hinv.keys hinv.values
    simp only [] at hkeep
    unfold snapshotDb
    simp only [hkeep, hlam, hfl]
    rfl
  rw [hsnap]
  simp only []
  have hall : ∀ p ∈ todo, AL.get? db.map p.1 = some p.2 ∧ p.2.state ≠ .ok ∧ GoodEntry p.1 p.2 := by
    intro p hp
    have hm := (htmem p).1 hp
    rw [List.mem_filter] at hm
    obtain ⟨k, e⟩ := p
    have hg := (AL.mem_iff_get?_of_noDup db.map k e hn).1 hm.1
    exact ⟨hg, by simpa using hm.2, hgood k e hg⟩
  have hgrow : (encVals vs).length + growth todo < 18446744073709551616 := by
    have h1 : growth todo = growth (db.map.filter fun (x : Bytes × Entry) => x.2.state != .ok || false) := growth_sort order _
    have h2 := growth_filter (fun (x : Bytes × Entry) => x.2.state != .ok || false) db.map
    omega
  obtain ⟨rs', vs', h1, h2, h3, h4⟩ := snapFold_inc db.name todo
    ({ db := db, fs := fs, vaddr := fs.size (valuesFile db.name), kaddr := fs.size (keysFile db.name), clock := clock } : SnapSt) rs vs htnd hinv
    (by simp [Fs.size, hinv.values]) (by simp [Fs.size, hinv.keys]) hall hgrow
  simp only [] at h1 h2 h3 h4
  generalize hS : (todo.foldl (fun s (p : Bytes × Entry) => snapKey false db.name s p.1 p.2)
      ({ db := db, fs := fs, vaddr := fs.size (valuesFile db.name), kaddr := fs.size (keysFile db.name), clock := clock } : SnapSt)) = S at h1 h2 h3 h4 ⊢
  have hinv' : DiskInv db.name S.db.map (S.fs.writeMeta db) rs' vs' :=
    diskInv_of_reads h1 (read_writeMeta_other _ _ _ (keys_ne_meta db.name)) (read_writeMeta_other _ _ _ (values_ne_meta db.name))
  -- every key is clean now
  have hclean : ∀ k, CleanKey S.db.map rs' k := by
    intro k
    by_cases hk : k ∈ todo.map (·.1)
    · exact h2 k hk
    · obtain ⟨hm, hr⟩ := h3 k hk
      intro e hg
      rw [hm] at hg
      -- not visited: the entry was clean already
      have hok : e.state = .ok := by
        cases hst : e.state with
        | ok => rfl
        | _ =>
          exfalso; apply hk
          have hmem : (k, e) ∈ db.map := AL.mem_of_get? db.map k e hg
          have : (k, e) ∈ todo := (htmem (k, e)).2 (List.mem_filter.2 ⟨hmem, by simp [hst]⟩)
          exact List.mem_map.2 ⟨(k, e), this, rfl⟩
      obtain ⟨_, hrec⟩ := hinv.stored k e hg (by rw [hok]; decide)
      obtain ⟨r, hr1, hr2, hr3⟩ := hrec hok
      exact Or.inl ⟨hok, r, by rw [hr]; exact hr1, hr2, hr3⟩
  refine ⟨rs', vs', hinv', hclean, h4, ?_⟩
  -- the loader
  have hload := loadLoop_recs (encVals vs') rs' [] ((encRecs rs').length + 1) { clock := clock' } hinv'.good rfl rfl rfl rfl
    (by
      have : rs'.length ≤ (encRecs rs').length := by
        clear hinv' hclean h1 h2 h3
        induction rs' with
        | nil => simp
        | cons r t ih => rw [encRecs_cons, List.length_append, KRec.enc_length, List.length_cons]; simp only [keyRecSize]; omega
      omega)
  refine ⟨loadedRecs rs' 0 clock' [], clock' + liveRecs rs', ?_, ?_⟩
  · unfold loadDb
    rw [hinv'.keys, hinv'.values]
    simpa using hload
  · intro k
    rw [← h4 k]
    have hbk' : ∀ r ∈ rs', r.ver ≠ -1 → r.bkey = r.key := by
      intro r hr hv
      rcases hinv'.bk r hr with h | ⟨_, h⟩
      · exact h
      · exact absurd h hv
    obtain ⟨g1, g2, g3⟩ := loadedRecs_get rs' hinv'.nodup hbk' k 0 clock' []
    cases hg : AL.get? S.db.map k with
    | none =>
      -- no entry: no record, or an orphan tombstone
      cases hgr : getRec rs' k with
      | none => have := g1 hgr; simp [liveView, this, hg]
      | some r =>
        obtain ⟨hrm, hrk⟩ := getRec_mem_key rs' k r hgr
        have hver : r.ver = -1 := by
          rcases hinv'.bk r hrm with h | ⟨_, h⟩
          · -- a record under its own key: memory would know the key
            have hu : validUtf8 k = true := by rw [← hrk, ← h]; exact (hinv'.good r hrm).kutf
            have ho : offOf rs' k ≠ none := by
              rw [Ne, offOf_none_iff]; intro hc; exact hc (List.mem_map.2 ⟨r, hrm, hrk⟩)
            obtain ⟨e, he, _⟩ := hinv'.known k ho hu
            rw [hg] at he; cases he
          · exact h
        have := g2 r hgr hver
        simp [liveView, this, hg]
    | some e =>
      rcases hclean k e hg with ⟨hok, r, hr1, hr2, hr3⟩ | ⟨hdel, r, hr1, hr2⟩
      · -- a live entry: its version is not the tombstone marker
        have hlv : liveView db.map k = some (e.value, e.version) := by rw [← h4 k]; simp [liveView, hg, hok]
        have hver : e.version ≠ -1 := by
          unfold liveView at hlv
          cases hg0 : AL.get? db.map k with
          | none => simp [hg0] at hlv
          | some e0 =>
            simp only [hg0, Option.bind_some] at hlv
            by_cases hd0 : e0.state = .deleted
            · simp [hd0] at hlv
            · simp only [hd0, if_false, Option.some.injEq, Prod.mk.injEq] at hlv
              rw [← hlv.2]; exact hne k e0 hg0 hd0
        obtain ⟨e', he', hv', hver', hst'⟩ := g3 r hr1 (by rw [hr2]; exact hver)
        simp [liveView, he', hst', hv', hver', hr2, hr3, hg, hok]
      · have := g2 r hr1 hr2
        simp [liveView, this, hg, hdel]

end Nun
