import NunVerif.Gen.Wire
import NunVerif.Proofs.WireParse
/-!
# C04 — the lines of live replication as they are PRINTED, from the source

`Props/C04Wire.lean` proves that `Request.parse` reads back the model's `replicateMsg`,
`replicateRemoveMsg`, `replicateIncMsg`, `resolveMsg` and the `rp` envelope.  Those message
functions were written by hand next to the source's `format!` calls.  This file removes the hand:
the format text and the argument order of every formatter are REGENERATED from
`replication_ops.rs` on every run (`Gen/Wire.lean`), printed by a generic `{}`-substituting
printer, and proved equal to the model's message functions for every database name, key, value,
version, amount and operation id.  Swap two arguments of a `format!`, change a separator or a
command word, and the equality stops checking — the round-trip theorems are then about a line the
code no longer prints, and the check says so.
-/
namespace Nun
open Bytes

/-- Rust's `format!` for a text with plain positional `{}` holes -/
def fmtWith : Bytes → List Bytes → Bytes
  | 123 :: 125 :: rest, a :: args => a ++ fmtWith rest args
  | c :: rest, args => c :: fmtWith rest args
  | [], _ => []

/-- print a generated formatter: its arguments looked up by name -/
def wireFmt (name : Bytes) (env : Bytes → Option Bytes) : Option Bytes :=
  match AL.get? Gen.wireFormats name with
  | some (tmpl, args) => (args.mapM env).map (fmtWith tmpl)
  | none => none

/-! ### the generated table, pinned -/

theorem C04_wire_formats :
    Gen.wireFormats =
      [(b!"get_replicate_message", b!"replicate {} {} {} {}", [b!"db_name", b!"key", b!"version", b!"value"]),
       (b!"get_replicate_remove_message", b!"replicate-remove {} {}", [b!"db_name", b!"key"]),
       (b!"get_replicate_increment_message", b!"replicate-increment {} {} {}", [b!"db_name", b!"key", b!"inc"]),
       (b!"get_resolve_message", b!"resolve {} {} {} {} {}", [b!"opp_id", b!"db_name", b!"key", b!"version", b!"value"]),
       (b!"message_to_replicate", b!"rp {} {}", [b!"self.opp_id", b!"self.message"]),
       (b!"replicate_message_with_sender", b!"rp {} {}", [b!"opp_id", b!"message"])] := by decide +kernel

/-- what the parameter names of the formatters denote -/
def wireEnv (db key value : Bytes) (version : Int) (inc : Int) (op : Nat) (msg : Bytes) (name : Bytes) : Option Bytes :=
  if name = b!"db_name" then some db else if name = b!"key" then some key else if name = b!"value" then some value
  else if name = b!"version" then some (ofInt version) else if name = b!"inc" then some (ofInt inc)
  else if name = b!"opp_id" ∨ name = b!"self.opp_id" then some (ofNat op)
  else if name = b!"message" ∨ name = b!"self.message" then some msg else none

/-! ### the model's message functions ARE the generated formatters, for every input -/

theorem C04_replicate_line_is_generated (db key value : Bytes) (version inc : Int) (op : Nat) (msg : Bytes) :
    wireFmt b!"get_replicate_message" (wireEnv db key value version inc op msg) = some (replicateMsg db key value version) := by
  unfold wireFmt; rw [C04_wire_formats]
  simp [AL.get?, wireEnv, fmtWith, replicateMsg]

theorem C04_replicate_remove_line_is_generated (db key value : Bytes) (version inc : Int) (op : Nat) (msg : Bytes) :
    wireFmt b!"get_replicate_remove_message" (wireEnv db key value version inc op msg) = some (replicateRemoveMsg db key) := by
  unfold wireFmt; rw [C04_wire_formats]
  simp [AL.get?, wireEnv, fmtWith, replicateRemoveMsg]

theorem C04_replicate_increment_line_is_generated (db key value : Bytes) (version inc : Int) (op : Nat) (msg : Bytes) :
    wireFmt b!"get_replicate_increment_message" (wireEnv db key value version inc op msg) = some (replicateIncMsg db key inc) := by
  unfold wireFmt; rw [C04_wire_formats]
  simp [AL.get?, wireEnv, fmtWith, replicateIncMsg]

theorem C04_resolve_line_is_generated (db key value : Bytes) (version inc : Int) (op : Nat) (msg : Bytes) :
    wireFmt b!"get_resolve_message" (wireEnv db key value version inc op msg) = some (resolveMsg op db key value version) := by
  unfold wireFmt; rw [C04_wire_formats]
  simp [AL.get?, wireEnv, fmtWith, resolveMsg]

/-- the envelope, at both places that print it: what the command puts on the replication channel and what the loop sends to a member -/
theorem C04_envelope_is_generated (db key value : Bytes) (version inc : Int) (op : Nat) (msg : Bytes) :
    wireFmt b!"replicate_message_with_sender" (wireEnv db key value version inc op msg) = some (rpLine op msg) ∧
    wireFmt b!"message_to_replicate" (wireEnv db key value version inc op msg) = some (rpLine op msg) ∧
    (PendingOp.wire { opId := op, message := msg, ackCount := 0, replicateCount := 0, replications := [] }) = rpLine op msg := by
  refine ⟨?_, ?_, ?_⟩
  · unfold wireFmt; rw [C04_wire_formats]; simp [AL.get?, wireEnv, fmtWith, rpLine]
  · unfold wireFmt; rw [C04_wire_formats]; simp [AL.get?, wireEnv, fmtWith, rpLine]
  · simp [PendingOp.wire, rpLine]

/-- non-vacuity -/
example : wireFmt b!"get_replicate_message" (wireEnv b!"t" b!"k" b!"two words" (-1) 0 0 []) = some b!"replicate t k -1 two words" := by
  decide +kernel

/-! ### the lines printed inline by the arms of `replicate_request`, and the announcements -/

theorem C04_wire_arm_formats :
    Gen.wireArmFormats =
      [(b!"create-db {} {} {}", [b!"name", b!"token", b!"strategy.to_string()"]),
       (b!"replicate-snapshot {} {}", [b!"db_names.join(\"|\")", b!"reclaim_space"]),
       (b!"election candidate {} {}", [b!"id", b!"node_name"]),
       (b!"election active {}", [b!"node_name"]),
       (b!"replicate-leave {}", [b!"name"]),
       (b!"replicate-join {}", [b!"name"]),
       (b!"set-primary {}", [b!"tcp_addr"]),
       (b!"secoundary {}", [b!"name"])] := by decide +kernel

/-- the i-th inline line, printed with the given argument texts -/
def armFmt (i : Nat) (args : List Bytes) : Option Bytes := (Gen.wireArmFormats[i]?).map fun p => fmtWith p.1 args

theorem C04_election_active_line_is_generated (name : Bytes) : armFmt 3 [name] = some (b!"election active " ++ name) := by
  unfold armFmt; rw [C04_wire_arm_formats]; simp [fmtWith]
theorem C04_leave_line_is_generated (name : Bytes) : armFmt 4 [name] = some (b!"replicate-leave " ++ name) := by
  unfold armFmt; rw [C04_wire_arm_formats]; simp [fmtWith]
theorem C04_join_line_is_generated (name : Bytes) : armFmt 5 [name] = some (b!"replicate-join " ++ name) := by
  unfold armFmt; rw [C04_wire_arm_formats]; simp [fmtWith]
theorem C04_set_primary_line_is_generated (name : Bytes) : armFmt 6 [name] = some (b!"set-primary " ++ name) := by
  unfold armFmt; rw [C04_wire_arm_formats]; simp [fmtWith]

end Nun
