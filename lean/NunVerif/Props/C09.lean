import NunVerif.Model.Session
import NunVerif.Gen.Guards
/-!
# C09 — every command acts only with the credential it requires

Statements are about `Node.processObj` / `Node.processRequest` (Model/Exec.lean), the model of
`process_request_obj` / `process_request`, for **every** node state, session and request.
-/
namespace Nun

/-- the administrative and cluster request kinds of the property statement -/
def Request.isAdminKind : Request → Bool
  | .createDb .. | .snapshot .. | .replicateSnapshot .. | .join .. | .leave .. | .replicateJoin ..
  | .replicateLeave .. | .setPrimary .. | .setSecoundary .. | .election .. | .electionWin | .electionActive ..
  | .replicateSet .. | .replicateRemove .. | .replicateIncrement .. | .replicateSince ..
  | .acknowledge .. | .clusterState | .metricsState | .debug .. | .listCommands => true
  | _ => false

/-- **Admin and cluster commands without admin authentication are no-ops**: the node state is
unchanged, the reply is an error, nothing is pushed to anybody and nothing is replicated. -/
theorem C09_unauth_noop (fuel : Node → Sid → Bytes → Node × Out) (n : Node) (sid : Sid) (req : Request)
    (hk : req.isAdminKind = true) (ha : (n.session sid).auth = false) :
    n.processObj fuel sid req = (n, .error b!"Not auth", []) := by
  cases req <;> simp [Request.isAdminKind] at hk <;> simp [Node.processObj, ha, notAuth]

/-- the same at the level of the raw command line, replication step included -/
theorem C09_unauth_line_noop (fuel : Node → Sid → Bytes → Node × Out) (n : Node) (sid : Sid) (input : Bytes) (req : Request)
    (hp : Request.parse (Bytes.trimBoth 10 input) = .ok req)
    (hk : req.isAdminKind = true) (ha : (n.session sid).auth = false) :
    n.processRequestWith fuel sid input = (n, .error b!"Not auth", []) := by
  unfold Node.processRequestWith
  simp only [hp, C09_unauth_noop fuel n sid req hk ha]
  simp [Node.replicateRequest, Resp.isError]

/-- `create-user` and `set-permissions` (writes to `$$` keys) are refused for every non-admin session -/
theorem C09_user_management_needs_admin (fuel : Node → Sid → Bytes → Node × Out) (n : Node) (sid : Sid) (ha : (n.session sid).auth = false)
    (req : Request) (hr : (∃ t u, req = .createUser t u) ∨ (∃ u ps, req = .setPermissions u ps)) :
    n.processObj fuel sid req = (n, .error b!"To read security keys you must auth as an admin!", []) := by
  have h1 : Bytes.startsWith Gen.userKeyPrefix Gen.securePrefix = true := by decide
  have h2 : Bytes.startsWith Gen.permKeyPrefix Gen.securePrefix = true := by decide
  rcases hr with ⟨t, u, rfl⟩ | ⟨u, ps, rfl⟩
  · simp [Node.processObj, Node.safeAccess, Node.withAccess, ha, h1]
  · simp [Node.processObj, Node.safeAccess, Node.withAccess, ha, h2]

/-- the data request kinds -/
def Request.isDataKind : Request → Bool
  | .get .. | .getSafe .. | .remove .. | .set .. | .increment .. | .watch .. | .unwatch .. | .unwatchAll
  | .keys .. | .arbiter | .resolve .. => true
  | _ => false

theorem safeAccess_nodb (n : Node) (sid : Sid) (key : Bytes) (kind : PermKind)
    (ha : (n.session sid).auth = false) (hd : (n.session sid).db = none) :
    ∃ out : Out, n.safeAccess sid key kind = .refused out ∧ out.1.isError = true ∧
      ∀ e ∈ out.2, e = .push sid Gen.noDbSelectedMsg := by
  unfold Node.safeAccess
  by_cases hs : Bytes.startsWith key Gen.securePrefix = true
  · refine ⟨(.error b!"To read security keys you must auth as an admin!", []), by simp [hs, ha], by simp [Resp.isError], by simp⟩
  · refine ⟨noDbSelected sid, by simp [hs, hd], by simp [noDbSelected, Resp.isError], by simp [noDbSelected]⟩

theorem selectedDb_nodb (n : Node) (sid : Sid) (hd : (n.session sid).db = none) :
    n.selectedDb sid = .refused (noDbSelected sid) := by
  simp [Node.selectedDb, hd]

/-- **Data commands do nothing until a database is selected**: state unchanged, error reply, and
the only thing pushed is the refusal line on the requester's own channel. -/
theorem C09_needs_db (fuel : Node → Sid → Bytes → Node × Out) (n : Node) (sid : Sid) (req : Request) (hk : req.isDataKind = true)
    (ha : (n.session sid).auth = false) (hd : (n.session sid).db = none) :
    (n.processObj fuel sid req).1 = n ∧ (n.processObj fuel sid req).2.1.isError = true ∧
    ∀ e ∈ (n.processObj fuel sid req).2.2, e = .push sid Gen.noDbSelectedMsg := by
  have hsel := selectedDb_nodb n sid hd
  cases req <;> simp [Request.isDataKind] at hk
  case get key =>
    obtain ⟨out, h, h1, h2⟩ := safeAccess_nodb n sid key .read ha hd
    simp only [Node.processObj, h, Node.withAccess]; exact ⟨trivial, h1, h2⟩
  case getSafe key =>
    obtain ⟨out, h, h1, h2⟩ := safeAccess_nodb n sid key .read ha hd
    simp only [Node.processObj, h, Node.withAccess]; exact ⟨trivial, h1, h2⟩
  case remove key =>
    obtain ⟨out, h, h1, h2⟩ := safeAccess_nodb n sid key .remove ha hd
    simp only [Node.processObj, h, Node.withAccess]; exact ⟨trivial, h1, h2⟩
  case set key value version =>
    obtain ⟨out, h, h1, h2⟩ := safeAccess_nodb n sid key .write ha hd
    simp only [Node.processObj, h, Node.withAccess]; exact ⟨trivial, h1, h2⟩
  case increment key inc =>
    obtain ⟨out, h, h1, h2⟩ := safeAccess_nodb n sid key .increment ha hd
    simp only [Node.processObj, h, Node.withAccess]; exact ⟨trivial, h1, h2⟩
  case watch key =>
    obtain ⟨out, h, h1, h2⟩ := safeAccess_nodb n sid key .read ha hd
    simp only [Node.processObj, h, Node.withAccess]; exact ⟨trivial, h1, h2⟩
  case unwatch key => simp [Node.processObj, hsel, Node.withAccess, noDbSelected, Resp.isError]
  case unwatchAll => simp [Node.processObj, hsel, Node.withAccess, noDbSelected, Resp.isError]
  case keys pattern => simp [Node.processObj, hsel, Node.withAccess, noDbSelected, Resp.isError]
  case arbiter => simp [Node.processObj, hsel, Node.withAccess, noDbSelected, Resp.isError]
  case resolve op dbName key value version =>
    obtain ⟨out, h, h1, h2⟩ := safeAccess_nodb n sid key .write ha hd
    simp only [Node.processObj, ha, h, Node.withAccess, Bool.false_eq_true, if_false]; exact ⟨trivial, h1, h2⟩

/-- **A failed `use-db` leaves everything, the previous selection included, untouched.** -/
theorem C09_failed_usedb_keeps_selection (fuel : Node → Sid → Bytes → Node × Out) (n : Node) (sid : Sid) (token name : Bytes) (user : Option Bytes)
    (he : (n.processObj fuel sid (.useDb token name user)).2.1.isError = true) :
    (n.processObj fuel sid (.useDb token name user)).1 = n := by
  unfold Node.processObj at he ⊢
  cases hdb : n.db? name with
  | none => simp [hdb]
  | some db =>
    simp only [hdb] at he ⊢
    by_cases hv : db.validLogin token user = true
    · rw [if_pos hv] at he
      split at he <;> simp [Resp.isError] at he
    · rw [if_neg hv]

/-- the property's own reading of a permission list: some `|`-separated entry names the kind and
has a pattern (`p*` prefix, `*p` suffix, otherwise substring) matching the key -/
def permitsSpec (list : Bytes) (kind : PermKind) (key : Bytes) : Bool :=
  (Permission.parseList list).any fun p => p.kinds.contains kind && p.keys.any fun pat => patternMatch pat key

/-- what `has_permission` computes is exactly that reading, applied to the stored list of the
session's user; a user without a list is permitted nothing -/
theorem C09_permits_is_spec (db : Db) (u : Bytes) (kind : PermKind) (key : Bytes) (hu : u ≠ b!"all") :
    db.permits (some u) kind key =
      match db.getValue (b!"$$permission_$" ++ u) with
      | some e => permitsSpec e.value kind key
      | none => false := by
  simp only [Db.permits, Option.getD, permitsSpec]
  cases db.getValue (b!"$$permission_$" ++ u) <;> simp [hu]

/-- the keyed request kinds with the access kind they require -/
def Request.keyedKind : Request → Option (Bytes × PermKind)
  | .get k => some (k, .read) | .getSafe k => some (k, .read) | .watch k => some (k, .read)
  | .set k _ _ => some (k, .write) | .increment k _ => some (k, .increment) | .remove k => some (k, .remove)
  | .resolve _ _ k _ _ => some (k, .write)
  | _ => none

/-- **Permission soundness.** A user-token session whose permission list does not grant the
required kind for the key reaches no database operation: state unchanged, `permission denied`,
nothing else pushed. (Holds at every command, so permission changes mid-session take effect at
once.) -/
theorem C09_permission_sound (fuel : Node → Sid → Bytes → Node × Out) (n : Node) (sid : Sid) (req : Request) (key : Bytes) (kind : PermKind)
    (d : Bytes) (db : Db)
    (hk : req.keyedKind = some (key, kind)) (ha : (n.session sid).auth = false)
    (hd : (n.session sid).db = some d) (hdb : n.db? d = some db)
    (hns : Bytes.startsWith key Gen.securePrefix = false)
    (hp : db.permits (n.session sid).user kind key = false) :
    n.processObj fuel sid req = (n, .error Gen.permissionDeniedMsg, [.push sid Gen.permissionDeniedMsg]) := by
  cases req <;> simp [Request.keyedKind] at hk <;> obtain ⟨rfl, rfl⟩ := hk <;>
    simp [Node.processObj, Node.safeAccess, Node.accessDb, Node.withAccess, ha, hd, hdb, hns, hp]

/-- `$$` keys are out of reach of every non-admin session whatever its permission list says -/
theorem C09_secure_key_refused (fuel : Node → Sid → Bytes → Node × Out) (n : Node) (sid : Sid) (req : Request) (key : Bytes) (kind : PermKind)
    (hk : req.keyedKind = some (key, kind)) (ha : (n.session sid).auth = false)
    (hs : Bytes.startsWith key Gen.securePrefix = true) :
    n.processObj fuel sid req = (n, .error b!"To read security keys you must auth as an admin!", []) := by
  cases req <;> simp [Request.keyedKind] at hk <;> obtain ⟨rfl, rfl⟩ := hk <;>
    simp [Node.processObj, Node.safeAccess, Node.withAccess, ha, hs]

/-- the guard and permission kind of every arm of `process_request_obj`, as regenerated from the
source on this run, is the one the model implements -/
theorem C09_guard_table_pin : Gen.guardTable = [
    (b!"ReplicateIncrement", b!"apply_if_auth", b!""), (b!"Increment", b!"apply_if_safe_access", b!"Increment"),
    (b!"Auth", b!"custom", b!""), (b!"Get", b!"apply_if_safe_access", b!"Read"), (b!"GetSafe", b!"apply_if_safe_access", b!"Read"),
    (b!"Remove", b!"apply_if_safe_access", b!"Remove"), (b!"Set", b!"apply_if_safe_access", b!"Write"),
    (b!"ReplicateRemove", b!"apply_if_auth", b!""), (b!"ReplicateSet", b!"apply_if_auth", b!""),
    (b!"Snapshot", b!"apply_if_auth", b!""), (b!"ReplicateSnapshot", b!"apply_if_auth", b!""),
    (b!"UnWatch", b!"apply_to_database", b!""), (b!"UnWatchAll", b!"apply_to_database", b!""),
    (b!"Watch", b!"apply_if_safe_access", b!"Read"), (b!"UseDb", b!"custom", b!""),
    (b!"CreateUser", b!"apply_if_safe_access", b!"Write"), (b!"CreateDb", b!"apply_if_auth", b!""),
    (b!"ElectionActive", b!"apply_if_auth", b!""), (b!"ElectionWin", b!"apply_if_auth", b!""),
    (b!"Election", b!"apply_if_auth", b!""), (b!"SetPrimary", b!"apply_if_auth", b!""),
    (b!"SetScoundary", b!"apply_if_auth", b!""), (b!"Join", b!"apply_if_auth", b!""), (b!"Leave", b!"apply_if_auth", b!""),
    (b!"ReplicateLeave", b!"apply_if_auth", b!""), (b!"ReplicateJoin", b!"apply_if_auth", b!""),
    (b!"ReplicateSince", b!"apply_if_auth", b!""), (b!"ClusterState", b!"apply_if_auth", b!""),
    (b!"MetricsState", b!"apply_if_auth", b!""), (b!"Keys", b!"apply_to_database", b!""),
    (b!"Acknowledge", b!"apply_if_auth", b!""), (b!"ReplicateRequest", b!"custom", b!""),
    (b!"Debug", b!"apply_if_auth", b!""), (b!"Arbiter", b!"apply_to_database", b!""),
    (b!"Resolve", b!"custom:apply_if_safe_access+apply_to_database_name", b!"Write"),
    (b!"ListCommands", b!"apply_if_auth", b!""), (b!"SetPermissions", b!"apply_if_safe_access", b!"Write")] := by
  decide

/-- non-vacuity: an unauthenticated `create-db` on a fresh node -/
example : (Request.createDb [116] [116] .none).isAdminKind = true := rfl

end Nun
