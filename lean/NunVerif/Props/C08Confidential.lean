import NunVerif.Proofs.LowEqNode
/-!
# C08 — confidentiality: replies and notifications do not depend on `$$` entries

Two-run noninterference, proved: `n` and `n.swap d` are the same server with two tables of databases
that differ only in `$$` entries outside `D` (per database: the `$$` keys the session legitimately
depends on — its own permission list).  `C08_request_confidential` (every request kind),
`C08_line_confidential` (a raw line, `rp` nested to any depth), `C08_history_confidential` (any
sequence of lines from sessions that are not administrators): same replies, same pushed lines, and
the two servers are indistinguishable again.  A `use-db` is covered when both servers judge the
presented credential alike — it is the session's own (`login_agrees_of_D`) or a wrong guess on both.
-/
namespace Nun

theorem releaseSelected_rel {D : Bytes → Bytes → Prop} (n : Node) (d : List (Bytes × Db)) (hl : LowDbs D n.dbs d) (s : Session) :
    ∃ d', (n.swap d).releaseSelected s = ((n.releaseSelected s).1.swap d', (n.releaseSelected s).2) ∧ LowDbs D (n.releaseSelected s).1.dbs d' := by
  unfold Node.releaseSelected
  cases s.db with
  | none => exact ⟨d, rfl, hl⟩
  | some prev => exact bumpConn_rel n d hl prev (· - 1)

theorem countSelected_rel {D : Bytes → Bytes → Prop} (n : Node) (d : List (Bytes × Db)) (hl : LowDbs D n.dbs d) (name : Bytes) :
    ∃ d', (n.swap d).countSelected name = ((n.countSelected name).1.swap d', (n.countSelected name).2) ∧ LowDbs D (n.countSelected name).1.dbs d' := by
  unfold Node.countSelected
  exact bumpConn_rel n d hl name (· + 1)

theorem withSafeAccess_rel {D : Bytes → Bytes → Prop} (n : Node) (d : List (Bytes × Db)) (hl : LowDbs D n.dbs d) (sid : Sid) (key : Bytes)
    (kind : PermKind) (hp : OwnPerm D n sid) (ha : (n.session sid).auth = false) (f1 f2 : Db → Node × Out)
    (hf : isSecure key = false → ∀ a b name, Db.LowEq (D name) a b → a.name = name → n.db? name = some a → AL.get? d name = some b →
      RelOut D (f1 a) (f2 b)) :
    RelOut D (n.withAccess (n.safeAccess sid key kind) f1) ((n.swap d).withAccess ((n.swap d).safeAccess sid key kind) f2) := by
  by_cases hs : isSecure key = true
  · have h1 : n.safeAccess sid key kind = .refused (.error b!"To read security keys you must auth as an admin!", []) := by
      have hs' : Bytes.startsWith key Gen.securePrefix = true := hs
      simp [Node.safeAccess, ha, hs']
    have h2 : (n.swap d).safeAccess sid key kind = .refused (.error b!"To read security keys you must auth as an admin!", []) := by
      have hs' : Bytes.startsWith key Gen.securePrefix = true := hs
      simp [Node.safeAccess, ha, hs']
    rw [h1, h2]; exact relOut_same D n d hl _
  · have hs' : isSecure key = false := by simpa using hs
    exact withAccess_rel n d hl _ _ _ _ (safeAccess_rel n d hl sid key kind hp ha) (hf hs')

theorem replicateChange_snd_congr (m1 m2 : Node) (name : Bytes) (c : Change)
    (h1 : m1.role = m2.role) (h2 : m1.clock = m2.clock) (h3 : m1.members = m2.members) :
    (m1.replicateChange name c).2 = (m2.replicateChange name c).2 := by
  unfold Node.replicateChange Node.isPrimary Node.isEligible
  rw [h1]
  split
  · simp [Node.replicateWeb, Node.tick, h2]
  · simp [Node.sendToPrimary, h3]

theorem resolveConflict_rel {Dk : Bytes → Prop} (n : Node) (d : List (Bytes × Db)) (a b : Db) (c : Change) (h : Db.LowEq Dk a b)
    (hk : isSecure c.key = false) :
    ((n.swap d).resolveConflict b c).1 = (n.resolveConflict a c).1.swap d ∧
    ((n.swap d).resolveConflict b c).2.2 = (n.resolveConflict a c).2.2 ∧
    Db.LowEq Dk (n.resolveConflict a c).2.1 ((n.swap d).resolveConflict b c).2.1 := by
  unfold Node.resolveConflict
  simp only [swap_tick, Node.tick, swap_clock]
  obtain ⟨g2, g1⟩ := setValue_lowEq h { key := conflictKey c, value := Gen.resolvedPrefix ++ [32] ++ c.value, version := -1, opId := n.clock, resolve := false }
    (Or.inl (conflictKey_not_secure c))
  generalize a.setValue { key := conflictKey c, value := Gen.resolvedPrefix ++ [32] ++ c.value, version := -1, opId := n.clock, resolve := false } = xa at g1 g2
  generalize b.setValue { key := conflictKey c, value := Gen.resolvedPrefix ++ [32] ++ c.value, version := -1, opId := n.clock, resolve := false } = xb at g1 g2
  obtain ⟨xa1, xa2, xa3⟩ := xa
  obtain ⟨xb1, xb2, xb3⟩ := xb
  simp only [Prod.mk.injEq] at g1 g2 ⊢
  obtain ⟨g2a, g2b⟩ := g2
  subst g2a; subst g2b
  rw [← h.name]
  obtain ⟨r2, r1⟩ := applyResolution_lowEq g1 c (Or.inl hk)
  generalize xa1.applyResolution c = ya at r1 r2
  generalize xb1.applyResolution c = yb at r1 r2
  obtain ⟨ya1, ya2, ya3⟩ := ya
  obtain ⟨yb1, yb2, yb3⟩ := yb
  simp only [Prod.mk.injEq] at r1 r2 ⊢
  obtain ⟨r2a, r2b⟩ := r2
  subst r2a; subst r2b
  have e1 := swap_replicateChange { n with clock := n.clock + 1 } d a.name
    { key := conflictKey c, value := Gen.resolvedPrefix ++ [32] ++ c.value, version := -1, opId := n.clock, resolve := false }
  refine ⟨congrArg Prod.fst e1, ?_, r1⟩
  have e2 := replicateChange_snd_congr ({ (n.swap d) with clock := n.clock + 1 } : Node) ({ n with clock := n.clock + 1 } : Node) a.name
      { key := conflictKey c, value := Gen.resolvedPrefix ++ [32] ++ c.value, version := -1, opId := n.clock, resolve := false } rfl rfl rfl
  rw [e2]
  exact ⟨rfl, rfl⟩

/-- the key a `use-db` reads to check the credential it is given -/
def loginKey (userName : Option Bytes) : Bytes := match userName with | some u => b!"$$user_" ++ u | none => Gen.tokenKey

/-- a credential whose key is among the session's legitimate dependencies is judged alike by both servers -/
theorem login_agrees_of_D {Dk : Bytes → Prop} {a b : Db} (h : Db.LowEq Dk a b) (token : Bytes) (userName : Option Bytes)
    (hD : Dk (loginKey userName)) : a.validLogin token userName = b.validLogin token userName :=
  validLogin_lowEq h token userName (by unfold loginKey at hD; exact hD)

/-- **C08, confidentiality, one request**: two servers that differ only in `$$` entries the session has no
claim on (`D` = per database, the `$$` keys it legitimately depends on: its own permission list) and that agree
on whether the credential a `use-db` presents is valid (it is the session's own — `login_agrees_of_D` — or a
guess that is wrong on both) answer ANY request of a session that is not
administrator with the same reply and the same pushed lines, and are indistinguishable again afterwards -/
theorem C08_request_confidential {D : Bytes → Bytes → Prop} (fuel : Node → Sid → Bytes → Node × Out) (n : Node) (d : List (Bytes × Db))
    (sid : Sid) (req : Request) (hl : LowDbs D n.dbs d) (ha : (n.session sid).auth = false) (hp : OwnPerm D n sid)
    (hlogin : ∀ token name userName a b, req = .useDb token name userName → n.db? name = some a → AL.get? d name = some b →
      a.validLogin token userName = b.validLogin token userName)
    (hfuel : ∀ str op, req = .replicateRequest str op → RelOut D (fuel n sid str) (fuel (n.swap d) sid str)) :
    RelOut D (n.processObj fuel sid req) ((n.swap d).processObj fuel sid req) := by
  cases req
  all_goals try (simp only [Node.processObj, swap_session, ha, notAuth, Bool.not_false, if_true]; exact relOut_same D n d hl _)
  case get key =>
    simp only [Node.processObj, swap_session]
    apply withSafeAccess_rel n d hl sid key .read hp ha
    intro hk a b name hab _ _ _
    rw [getKV_lowEq hab key (Or.inl hk)]
    exact relOut_same D n d hl _
  case getSafe key =>
    simp only [Node.processObj, swap_session]
    apply withSafeAccess_rel n d hl sid key .read hp ha
    intro hk a b name hab _ _ _
    rw [getKV_lowEq hab key (Or.inl hk)]
    exact relOut_same D n d hl _
  case keys pattern =>
    simp only [Node.processObj, swap_session, ha]
    apply withAccess_rel n d hl _ _ _ _ (selectedDb_rel n d hl sid hp)
    intro a b name hab _ _ _
    rw [listKeys_lowEq hab pattern false (Or.inl rfl)]
    exact relOut_same D n d hl _
  case watch key =>
    simp only [Node.processObj]
    apply withSafeAccess_rel n d hl sid key .read hp ha
    intro hk a b name hab han _ _
    have h := watch_lowEq hab key sid
    exact relOut_setDb n d hl n rfl _ _ (by rw [show (a.watch key sid).name = name from by unfold Db.watch; split <;> exact han]; exact h) _
  case unwatch key =>
    simp only [Node.processObj]
    apply withAccess_rel n d hl _ _ _ _ (selectedDb_rel n d hl sid hp)
    intro a b name hab han _ _
    exact relOut_setDb n d hl n rfl _ _ (by rw [show (a.unwatch key sid).name = name from han]; exact unwatch_lowEq hab key sid) _
  case unwatchAll =>
    simp only [Node.processObj]
    apply withAccess_rel n d hl _ _ _ _ (selectedDb_rel n d hl sid hp)
    intro a b name hab han _ _
    exact relOut_setDb n d hl n rfl _ _ (by rw [(unwatchAll_secEq a sid).1, han]; exact unwatchAll_lowEq hab sid) _
  case arbiter =>
    simp only [Node.processObj]
    apply withAccess_rel n d hl _ _ _ _ (selectedDb_rel n d hl sid hp)
    intro a b name hab han _ _
    obtain ⟨h1, h2⟩ := registerArbiter_lowEq hab sid
    rw [← h1]
    exact relOut_setDb n d hl n rfl _ _ (by rw [(registerArbiter_secEq a sid).1, han]; exact h2) _
  case auth user password =>
    simp only [Node.processObj, swap_session]
    exact ⟨rfl, d, rfl, hl⟩
  case createUser token userName =>
    simp only [Node.processObj]
    apply withSafeAccess_rel n d hl sid Gen.userKeyPrefix .write hp ha
    intro hk; exact absurd hk (by decide)
  case setPermissions user perms =>
    simp only [Node.processObj]
    apply withSafeAccess_rel n d hl sid Gen.permKeyPrefix .write hp ha
    intro hk; exact absurd hk (by decide)
  case replicateRequest str op =>
    simp only [Node.processObj]
    split
    · exact relOut_same D n d hl _
    obtain ⟨h1, d', h2, h3⟩ := hfuel str op rfl
    exact ⟨by
      generalize fuel n sid str = x1 at h1 h2 h3
      generalize fuel (n.swap d) sid str = x2 at h1 h2
      obtain ⟨m1, r1, e1⟩ := x1; obtain ⟨m2, r2, e2⟩ := x2
      simp only [Prod.mk.injEq] at h1 ⊢
      exact ⟨h1.1, by simp [Node.swap, h1.2]⟩, d', h2, h3⟩
  case set key value version =>
    simp only [Node.processObj]
    apply withSafeAccess_rel n d hl sid key .write hp ha
    intro hk a b name hab han hga _
    obtain ⟨h1, h2, h3⟩ := setKeyValue_rel n d a b key value version hab hk
    have hfr := setKeyValue_frame n a key value version
    generalize n.setKeyValue a key value version = xa at h1 h2 h3 hfr
    generalize (n.swap d).setKeyValue b key value version = xb at h1 h2 h3
    obtain ⟨xa1, xa2, xa3, xa4⟩ := xa
    obtain ⟨xb1, xb2, xb3, xb4⟩ := xb
    simp only [Prod.mk.injEq] at h1 h2 h3 hfr ⊢
    subst h1
    obtain ⟨h2a, h2b⟩ := h2
    subst h2a; subst h2b
    have hn : xa2.name = name := by rw [hfr.2.1]; exact han
    rw [← hab.name]
    exact relOut_setDb n d hl xa1 hfr.1 xa2 xb2 (by rw [hn]; exact h3) _
  case remove key =>
    simp only [Node.processObj]
    apply withSafeAccess_rel n d hl sid key .remove hp ha
    intro hk a b name hab han _ _
    rcases removeValue_lowEq hab key (Or.inl hk) with ⟨h1, h2⟩ | ⟨a', b', ps, h1, h2, h3⟩
    · rw [h1, h2]; exact relOut_same D n d hl _
    · rw [h1, h2]
      simp only [swap_isPrimary, swap_sendToPrimary, ← hab.name]
      have hn : a'.name = name := by
        have := removeValue_secEq a a' key ps hk h1
        rw [this.1]; exact han
      exact relOut_setDb n d hl n rfl a' b' (by rw [hn]; exact h3) _
  case increment key inc =>
    simp only [Node.processObj]
    apply withSafeAccess_rel n d hl sid key .increment hp ha
    intro hk a b name hab han _ _
    simp only [swap_isPrimary, swap_tick, Node.tick, swap_clock, swap_sendToPrimary, ← hab.name]
    split
    · obtain ⟨h1, h2⟩ := incValue_lowEq hab key inc n.clock (Or.inl hk)
      have hn := (incValue_secEq a key inc n.clock hk).1
      generalize a.incValue key inc n.clock = xa at h1 h2 hn
      generalize b.incValue key inc n.clock = xb at h1 h2
      obtain ⟨xa1, xa2, xa3⟩ := xa
      obtain ⟨xb1, xb2, xb3⟩ := xb
      simp only [Prod.mk.injEq] at h1 h2 hn ⊢
      obtain ⟨h1a, h1b⟩ := h1
      subst h1a; subst h1b
      cases xa2 with
      | ok => exact relOut_setDb n d hl { n with clock := n.clock + 1 } rfl xa1 xb1 (by rw [hn, han]; exact h2) _
      | notNumeric => exact relOut_same D { n with clock := n.clock + 1 } d hl _
      | overflow => exact relOut_same D { n with clock := n.clock + 1 } d hl _
      | versionCap => exact relOut_same D { n with clock := n.clock + 1 } d hl _
    · exact relOut_same D n d hl _
  case resolve op dbName key value version =>
    simp only [Node.processObj, swap_session, ha, Bool.false_eq_true, if_false, Bool.false_and, swap_isPrimary, swap_sendToPrimary]
    apply withSafeAccess_rel n d hl sid key .write hp ha
    intro hk a b name hab han _ _
    split
    · obtain ⟨h1, h2, h3⟩ := resolveConflict_rel n d a b { key := key, value := value, version := version, opId := op, resolve := true } hab hk
      have hfr := resolveConflict_secEq n a { key := key, value := value, version := version, opId := op, resolve := true } hk
      generalize n.resolveConflict a { key := key, value := value, version := version, opId := op, resolve := true } = xa at h1 h2 h3 hfr
      generalize (n.swap d).resolveConflict b { key := key, value := value, version := version, opId := op, resolve := true } = xb at h1 h2 h3
      obtain ⟨xa1, xa2, xa3, xa4⟩ := xa
      obtain ⟨xb1, xb2, xb3, xb4⟩ := xb
      simp only [Prod.mk.injEq] at h1 h2 h3 hfr ⊢
      subst h1
      obtain ⟨h2a, h2b⟩ := h2
      subst h2a; subst h2b
      have hn : xa2.name = name := by rw [hfr.2.1]; exact han
      exact relOut_setDb n d hl xa1 hfr.1 xa2 xb2 (by rw [hn]; exact h3) _
    · exact relOut_same D n d hl _
  case useDb token name userName =>
    simp only [Node.processObj, swap_session, swap_db?]
    cases hg : n.db? name with
    | none => rw [lowDbs_none hl name hg]; exact relOut_same D n d hl _
    | some a =>
      obtain ⟨b, hb, hab, han⟩ := lowDbs_get hl name a hg
      rw [hb]
      simp only []
      rw [← hlogin token name userName a b rfl hg hb]
      split
      · obtain ⟨d1, e1, l1⟩ := releaseSelected_rel n d hl (n.session sid)
        rw [e1]
        simp only []
        have hk : ∀ s' : Session, RelOut D
            ((((n.releaseSelected (n.session sid)).1.setSession sid s').countSelected name).1, Resp.ok,
              (n.releaseSelected (n.session sid)).2 ++ (((n.releaseSelected (n.session sid)).1.setSession sid s').countSelected name).2)
            (((((n.releaseSelected (n.session sid)).1.swap d1).setSession sid s').countSelected name).1, Resp.ok,
              (n.releaseSelected (n.session sid)).2 ++ ((((n.releaseSelected (n.session sid)).1.swap d1).setSession sid s').countSelected name).2) := by
          intro s'
          have l1' : LowDbs D ((n.releaseSelected (n.session sid)).1.setSession sid s').dbs d1 := l1
          obtain ⟨d2, e2, l2⟩ := countSelected_rel ((n.releaseSelected (n.session sid)).1.setSession sid s') d1 l1' name
          have e2' : (((n.releaseSelected (n.session sid)).1.swap d1).setSession sid s').countSelected name
              = ((((n.releaseSelected (n.session sid)).1.setSession sid s').countSelected name).1.swap d2,
                 (((n.releaseSelected (n.session sid)).1.setSession sid s').countSelected name).2) := e2
          rw [e2']
          exact ⟨rfl, d2, rfl, l2⟩
        exact hk _
      · exact relOut_same D n d hl _

theorem replicateRequest_rel {D : Bytes → Bytes → Prop} (n : Node) (d : List (Bytes × Db)) (hl : LowDbs D n.dbs d) (req : Request) (dbName : Option Bytes) (r : Resp) :
    (n.swap d).replicateRequest req dbName r = ((n.replicateRequest req dbName r).1.swap d, (n.replicateRequest req dbName r).2) ∧
    (n.replicateRequest req dbName r).1.dbs = n.dbs := by
  have core : (Node.replicateRequestCore (n.swap d) req dbName r) = ((Node.replicateRequestCore n req dbName r).1.swap d, (Node.replicateRequestCore n req dbName r).2) ∧
      (Node.replicateRequestCore n req dbName r).1.dbs = n.dbs := by
    unfold Node.replicateRequestCore
    cases req <;> simp [Node.replicateWeb, Node.tick, Node.swap]
  unfold Node.replicateRequest
  split
  · exact ⟨rfl, rfl⟩
  · cases dbName with
    | none => exact core
    | some dn =>
      cases hg : n.db? dn with
      | none =>
        have h2 : (n.swap d).db? dn = none := lowDbs_none hl dn hg
        simp only [h2, hg, Option.isNone_none, if_true]; refine ⟨?_, ?_⟩ <;> first | rfl | trivial
      | some a =>
        obtain ⟨b, hb, _, _⟩ := lowDbs_get hl dn a hg
        have h2 : (n.swap d).db? dn = some b := hb
        simp only [h2, hg, Option.isNone_some, Bool.false_eq_true, if_false]; exact core

/-- the `use-db` credentials a line presents (also inside nested `rp`) are judged alike by both servers -/
def LoginsAgree (n : Node) (d : List (Bytes × Db)) : Nat → Bytes → Prop
  | 0, _ => True
  | fuel + 1, line =>
    match Request.parse (Bytes.trimBoth 10 line) with
    | .ok (.useDb token name userName) =>
      ∀ a b, n.db? name = some a → AL.get? d name = some b → a.validLogin token userName = b.validLogin token userName
    | .ok (.replicateRequest str _) => LoginsAgree n d fuel str
    | _ => True

theorem C08_recur_confidential {D : Bytes → Bytes → Prop} (fuel : Nat) : ∀ (n : Node) (d : List (Bytes × Db)) (sid : Sid) (line : Bytes),
    LowDbs D n.dbs d → (n.session sid).auth = false → OwnPerm D n sid → LoginsAgree n d fuel line →
    RelOut D (Node.recurOf fuel n sid line) (Node.recurOf fuel (n.swap d) sid line) := by
  induction fuel with
  | zero => intro n d sid line hl _ _ _; exact relOut_same D n d hl _
  | succ f ih =>
    intro n d sid line hl ha hp hlog
    simp only [Node.recurOf, Node.processRequestWith, swap_session]
    simp only [LoginsAgree] at hlog
    cases hparse : Request.parse (Bytes.trimBoth 10 line) with
    | error e => exact relOut_same D n d hl _
    | ok req =>
      simp only [hparse] at hlog
      have hreq : RelOut D (n.processObj (Node.recurOf f) sid req) ((n.swap d).processObj (Node.recurOf f) sid req) := by
        apply C08_request_confidential (Node.recurOf f) n d sid req hl ha hp
        · intro token name userName a b hr h1 h2
          subst hr; exact hlog a b h1 h2
        · intro str op hr
          subst hr
          exact ih n d sid str hl ha hp hlog
      -- the replication step after the request
      obtain ⟨hout, d', hn', hl'⟩ := hreq
      have hx2 : Node.processObj (Node.recurOf f) (n.swap d) sid req
          = ((Node.processObj (Node.recurOf f) n sid req).1.swap d', (Node.processObj (Node.recurOf f) n sid req).2) :=
        Prod.ext hn' hout.symm
      simp only []
      rw [hx2]
      simp only []
      obtain ⟨q1, q2⟩ := replicateRequest_rel (Node.processObj (Node.recurOf f) n sid req).1 d' hl' req (n.session sid).db
        (Node.processObj (Node.recurOf f) n sid req).2.1
      rw [q1]
      exact ⟨rfl, d', rfl, by rw [q2]; exact hl'⟩

/-- **C08, confidentiality, one line** (any command, `rp` nested to any depth) -/
theorem C08_line_confidential {D : Bytes → Bytes → Prop} (n : Node) (d : List (Bytes × Db)) (sid : Sid) (line : Bytes)
    (hl : LowDbs D n.dbs d) (ha : (n.session sid).auth = false) (hp : OwnPerm D n sid)
    (hlog : LoginsAgree n d (line.length + 1 + 1) line) :
    RelOut D (n.exec sid line) ((n.swap d).exec sid line) := by
  have he : ∀ m : Node, m.exec sid line = Node.recurOf (line.length + 1 + 1) m sid line := by
    intro m; simp only [Node.exec, Node.processRequest, Node.recurOf]
  rw [he n, he (n.swap d)]
  exact C08_recur_confidential (line.length + 1 + 1) n d sid line hl ha hp hlog

/-- everything a run of lines answers and pushes, line by line -/
def outsOf : Node → List (Sid × Bytes) → List Out
  | _, [] => []
  | n, (sid, line) :: rest => (n.exec sid line).2 :: outsOf (n.exec sid line).1 rest

/-- a history whose every line comes from a session that is not administrator at that moment, whose own
permission list is among its legitimate dependencies, and whose `use-db` credentials both servers judge alike -/
def ConfRun (D : Bytes → Bytes → Prop) : Node → List (Bytes × Db) → List (Sid × Bytes) → Prop
  | _, _, [] => True
  | n, d, (sid, line) :: rest =>
    (n.session sid).auth = false ∧ OwnPerm D n sid ∧ LoginsAgree n d (line.length + 1 + 1) line ∧
    ConfRun D (n.exec sid line).1 ((n.swap d).exec sid line).1.dbs rest

/-- **C08, confidentiality, every history**: two servers that differ only in `$$` entries the sessions have no
claim on give, line after line, the same replies and the same pushed lines to ANY sequence of lines from sessions
that are not administrators — whatever the administrators stored under those keys — and stay indistinguishable -/
theorem C08_history_confidential {D : Bytes → Bytes → Prop} (ls : List (Sid × Bytes)) : ∀ (n : Node) (d : List (Bytes × Db)),
    LowDbs D n.dbs d → ConfRun D n d ls →
    outsOf n ls = outsOf (n.swap d) ls ∧ ∃ d', runLines (n.swap d) ls = (runLines n ls).swap d' ∧ LowDbs D (runLines n ls).dbs d' := by
  induction ls with
  | nil => intro n d hl _; exact ⟨rfl, d, rfl, hl⟩
  | cons p rest ih =>
    obtain ⟨sid, line⟩ := p
    intro n d hl hrun
    obtain ⟨ha, hp, hlog, hrest⟩ := hrun
    obtain ⟨hout, d', hn', hl'⟩ := C08_line_confidential n d sid line hl ha hp hlog
    have hd' : ((n.swap d).exec sid line).1.dbs = d' := by rw [hn']; rfl
    rw [hd'] at hrest
    obtain ⟨h1, d'', h2, h3⟩ := ih (n.exec sid line).1 d' hl' hrest
    refine ⟨?_, d'', ?_, h3⟩
    · simp only [outsOf]; rw [← hout, hn', h1]
    · simp only [runLines, List.foldl_cons] at h2 ⊢
      rw [hn']; exact h2

/-! ## Non-vacuity: two concrete servers that differ in a `$$` entry -/

theorem lowDbs_single {D : Bytes → Bytes → Prop} (name : Bytes) (a b : Db) (h : Db.LowEq (D name) a b) (hn : a.name = name) :
    LowDbs D [(name, a)] [(name, b)] := by
  intro nm
  by_cases hnm : name = nm
  · subst hnm; exact Or.inr ⟨a, b, by simp [AL.get?], by simp [AL.get?], h, hn⟩
  · exact Or.inl ⟨by simp [AL.get?, hnm], by simp [AL.get?, hnm]⟩

def c08A : Db := { Db.new b!"t" 1 .none with
  map := [(Gen.tokenKey, { value := b!"tok", version := 0, opId := 1, state := .new, vaddr := 0, kaddr := 0 }),
          (b!"$$secret", { value := b!"alpha", version := 0, opId := 2, state := .new, vaddr := 0, kaddr := 0 }),
          (b!"k", { value := b!"v", version := 0, opId := 3, state := .new, vaddr := 0, kaddr := 0 })] }
def c08B : Db := { Db.new b!"t" 1 .none with
  map := [(Gen.tokenKey, { value := b!"tok", version := 0, opId := 1, state := .new, vaddr := 0, kaddr := 0 }),
          (b!"$$secret", { value := b!"beta-longer", version := 7, opId := 9, state := .updated, vaddr := 0, kaddr := 0 }),
          (b!"k", { value := b!"v", version := 0, opId := 3, state := .new, vaddr := 0, kaddr := 0 })] }

/-- the session's legitimate dependencies in the example: the database token it logged in with -/
def c08D : Bytes → Bytes → Prop := fun _ k => k = Gen.tokenKey ∨ k = b!"$$permission_$all"

example : Db.LowEq (c08D b!"t") c08A c08B where
  name := rfl
  strategy := rfl
  watchers := rfl
  conns := rfl
  nda := by unfold AL.NoDupKeys; decide
  ndb := by unfold AL.NoDupKeys; decide
  low := by
    intro k hk
    by_cases h1 : k = b!"$$secret"
    · subst h1
      rcases hk with h | h | h
      · exact absurd h (by decide)
      · exact absurd h (by decide)
      · exact absurd h (by decide)
    · have : ¬ (b!"$$secret" = k) := fun h => h1 h.symm
      simp [Db.getValue, c08A, c08B, AL.get?, this]

end Nun
