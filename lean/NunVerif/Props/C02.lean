import NunVerif.Proofs.KvSeq
/-!
# C02 — set-safe is an atomic compare-and-set; versions only grow (sequential part)

The compare-and-set rule and version monotonicity are proved here for every database state and
every version argument. The interleaving part (linearizability under all lock-level schedules) is
in `Props/C02Conc.lean`.
-/
namespace Nun

/-- the version `get-safe` reports for a key -/
def Db.reportedVersion (db : Db) (k : Bytes) : Int := (db.getKV k).2

theorem keepInConflict_false (c : Change) (h : c.version ≠ -2) : c.keepInConflict = false := by
  simp [Change.keepInConflict, inConflict, Gen.inConflictVersion, h]

theorem entry_inConflict_false (e : Entry) (h : e.version ≠ -2) : e.inConflict = false := by
  simp [Entry.inConflict, inConflict, Gen.inConflictVersion, h]

theorem nextVersion_versioned (c : Change) (old : Entry) (hr : c.resolve = false) (h1 : c.version ≠ -2)
    (h2 : old.version ≠ -2) (h3 : c.version ≠ -1) (h4 : c.version < 2147483647) : c.nextVersion old = c.version + 1 := by
  simp [Change.nextVersion, keepInConflict_false c h1, entry_inConflict_false old h2, hr, h3, vinc_eq _ h4]

theorem nextVersion_plain (c : Change) (old : Entry) (hr : c.resolve = false) (h2 : old.version ≠ -2)
    (h3 : c.version = -1) (h4 : old.version < 2147483647) : c.nextVersion old = old.version + 1 := by
  have h1 : c.version ≠ -2 := by omega
  simp [Change.nextVersion, keepInConflict_false c h1, entry_inConflict_false old h2, hr, h3, vinc_eq _ h4]

theorem setValue_on_entry (db : Db) (c : Change) (old : Entry) (hg : db.getValue c.key = some old) :
    db.setValue c =
      if c.nextVersion old ≤ old.version ∧ ¬ c.keepInConflict = true then
        (db, .versionError c.key old.version c.version old c (updState old.state), [])
      else
        (db.setValueVersion c.key c.value (c.nextVersion old) (updState old.state) old.vaddr old.kaddr c.opId,
         .set c.key c.value,
         (db.setValueVersion c.key c.value (c.nextVersion old) (updState old.state) old.vaddr old.kaddr c.opId).notify
           c.key c.value (c.nextVersion old)) := by
  simp [Db.setValue, hg]

/-- **CAS rule, existing key.** On a key that has an entry (not in conflict resolution), a versioned
write with `v ≥ 0` is accepted exactly when `v` is not older than the version `get-safe` reports;
when accepted the new version is `v + 1`, strictly above the old one. -/
theorem C02_cas_rule (db : Db) (c : Change) (old : Entry)
    (hg : db.getValue c.key = some old) (hold : 0 ≤ old.version) (hv : 0 ≤ c.version) (hr : c.resolve = false)
    (hmax : c.version < 2147483647) :
    ((∃ ps, db.setValue c = (db.setValueVersion c.key c.value (c.version + 1) (updState old.state) old.vaddr old.kaddr c.opId,
                              .set c.key c.value, ps))
        ∧ db.reportedVersion c.key ≤ c.version ∧ old.version < c.version + 1)
    ∨ (db.setValue c = (db, .versionError c.key old.version c.version old c (updState old.state), [])
        ∧ c.version < db.reportedVersion c.key) := by
  have hrep : db.reportedVersion c.key = old.version := by simp [Db.reportedVersion, Db.getKV, hg]
  have hnv := nextVersion_versioned c old hr (by omega) (by omega) (by omega) hmax
  have hk := keepInConflict_false c (by omega)
  rw [setValue_on_entry db c old hg, hnv, hk, hrep]
  by_cases hle : c.version + 1 ≤ old.version
  · right
    rw [if_pos ⟨hle, by simp⟩]
    exact ⟨rfl, by omega⟩
  · left
    rw [if_neg (fun h => hle h.1)]
    exact ⟨⟨_, rfl⟩, by omega, by omega⟩

/-- **CAS rule, absent key.** A versioned write to a key without an entry always succeeds (version `v + 1`). -/
theorem C02_cas_absent (db : Db) (c : Change) (hg : db.getValue c.key = none) :
    ∃ ps, db.setValue c = (db.setValueVersion c.key c.value (vinc c.version) .new 0 0 c.opId, .set c.key c.value, ps) := by
  simp [Db.setValue, hg]

/-- a plain write (`-1`) to an existing, non-conflicted entry is accepted with version `old + 1` -/
theorem C02_plain_write (db : Db) (c : Change) (old : Entry)
    (hg : db.getValue c.key = some old) (hold : 0 ≤ old.version) (hv : c.version = -1) (hr : c.resolve = false)
    (hmax : old.version < 2147483647) :
    ∃ ps, db.setValue c
      = (db.setValueVersion c.key c.value (old.version + 1) (updState old.state) old.vaddr old.kaddr c.opId, .set c.key c.value, ps) := by
  have hnv := nextVersion_plain c old hr (by omega) hv hmax
  rw [setValue_on_entry db c old hg, hnv, if_neg (fun h => by omega)]
  exact ⟨_, rfl⟩

/-- the five version arguments of the quantifier — plain (`-1`), `cur-1`, `cur`, `cur+1`, large:
only `cur-1` is refused -/
theorem C02_cas_cases (db : Db) (k val : Bytes) (op : Nat) (old : Entry) (big : Int)
    (hg : db.getValue k = some old) (hold : 1 ≤ old.version) (hbig : old.version + 1 ≤ big) (hmax : big < 2147483647) :
    let set (v : Int) := (db.setValue { key := k, value := val, version := v, opId := op, resolve := false }).2.1
    set (-1) = .set k val ∧ set (old.version - 1) = .versionError k old.version (old.version - 1) old
        { key := k, value := val, version := old.version - 1, opId := op, resolve := false } (updState old.state)
      ∧ set old.version = .set k val ∧ set (old.version + 1) = .set k val ∧ set big = .set k val := by
  have hrep : db.reportedVersion k = old.version := by simp [Db.reportedVersion, Db.getKV, hg]
  have hacc : ∀ v, 0 ≤ v → old.version ≤ v → v < 2147483647 →
      (db.setValue { key := k, value := val, version := v, opId := op, resolve := false }).2.1 = .set k val := by
    intro v hv hle hvm
    rcases C02_cas_rule db { key := k, value := val, version := v, opId := op, resolve := false } old hg (by omega) hv rfl hvm with ⟨⟨ps, h⟩, _⟩ | ⟨_, hlt⟩
    · rw [h]
    · simp only [] at hlt; omega
  refine ⟨?_, ?_, hacc _ (by omega) (by omega) (by omega), hacc _ (by omega) (by omega) (by omega), hacc _ (by omega) (by omega) hmax⟩
  · obtain ⟨ps, h⟩ := C02_plain_write db { key := k, value := val, version := -1, opId := op, resolve := false } old hg (by omega) rfl rfl (by omega)
    simp only [h]
  · rcases C02_cas_rule db { key := k, value := val, version := old.version - 1, opId := op, resolve := false } old hg (by omega) (by simp only []; omega) rfl (by simp only []; omega) with ⟨_, hle, _⟩ | ⟨h, _⟩
    · simp only [] at hle; omega
    · simp only [h]

/-- **Versions only grow.** Along every command sequence (set, set-safe, increment, remove, snapshots),
the version of a key that keeps its entry never decreases, and it strictly increases at every
accepted `set` / `set-safe` / `increment` of that key. -/
theorem C02_version_monotone (s : KvSt) (c : KvCmd) (hw : s.db.WF) (hc : cmdOk c) (k : Bytes) (e e' : Entry)
    (hg : AL.get? s.db.map k = some e) (hg' : AL.get? (kvStep s c).1.db.map k = some e') :
    e.version ≤ e'.version ∧
    (((∃ v ver, c = .set k v ver) ∨ (∃ n, c = .inc k n)) → (kvStep s c).2 = .ok → e.version < 2147483647 →
        e.version < e'.version) := by
  cases c with
  | get k0 => simp only [kvStep] at hg'; rw [hg] at hg'; simp at hg'; subst hg'; simp
  | set k0 v ver =>
    simp only [cmdOk] at hc
    cases hres : s.db.setValue { key := k0, value := v, version := ver, opId := s.clock, resolve := false } with
    | mk db' rest =>
      obtain ⟨r, ps⟩ := rest
      cases r with
      | versionError k' ov v' old c' st =>
        have e1 : kvStep s (.set k0 v ver) = ({ s with clock := s.clock + 1 }, .refused) := by simp [kvStep, hres]
        rw [e1] at hg' ⊢
        simp only [] at hg'; rw [hg] at hg'; simp at hg'; subst hg'; simp
      | set k' v' =>
        have e1 : kvStep s (.set k0 v ver) = ({ s with db := db', clock := s.clock + 1 }, .ok) := by simp [kvStep, hres]
        rw [e1] at hg' ⊢
        simp only [] at hg'
        by_cases hk : k0 = k
        · subst hk
          have hgv : s.db.getValue k0 = some e := hg
          rw [setValue_on_entry s.db _ e hgv] at hres
          have hev := hw.ver k0 e hg
          split at hres
          · simp at hres
          · rename_i hcond
            simp only [Prod.mk.injEq] at hres
            rw [← hres.1] at hg'
            simp only [Db.setValueVersion, AL.get?_put_same, Option.some.injEq] at hg'
            subst hg'
            simp only []
            have hkc := keepInConflict_false { key := k0, value := v, version := ver, opId := s.clock, resolve := false } (by simp only []; omega)
            have : ¬ (({ key := k0, value := v, version := ver, opId := s.clock, resolve := false } : Change).nextVersion e ≤ e.version) := by
              intro hle; apply hcond; exact ⟨hle, by rw [hkc]; simp⟩
            constructor
            · omega
            · intro _ _; omega
        · have hother : AL.get? db'.map k = AL.get? s.db.map k := by
            unfold Db.setValue at hres
            cases hgv : s.db.getValue k0 with
            | none =>
              simp only [hgv, Prod.mk.injEq] at hres
              rw [← hres.1]; simp only [Db.setValueVersion]; exact AL.get?_put_other _ _ hk
            | some old =>
              simp only [hgv] at hres
              split at hres
              · simp at hres
              · simp only [Prod.mk.injEq] at hres
                rw [← hres.1]; simp only [Db.setValueVersion]; exact AL.get?_put_other _ _ hk
          rw [hother, hg] at hg'; simp at hg'; subst hg'
          refine ⟨by omega, ?_⟩
          rintro (⟨v1, ver1, h⟩ | ⟨n, h⟩)
          · simp only [KvCmd.set.injEq] at h; exact absurd h.1 hk
          · simp at h
  | remove k0 =>
    cases hres : s.db.removeValue k0 with
    | none =>
      have e1 : kvStep s (.remove k0) = (s, .refused) := by simp [kvStep, hres]
      rw [e1] at hg' ⊢; rw [hg] at hg'; simp at hg'; subst hg'; simp
    | some r =>
      obtain ⟨db', ps⟩ := r
      have e1 : kvStep s (.remove k0) = ({ s with db := db' }, .ok) := by simp [kvStep, hres]
      rw [e1] at hg' ⊢
      simp only [] at hg'
      refine ⟨?_, by rintro (⟨v1, ver1, h⟩ | ⟨n, h⟩) <;> simp at h⟩
      unfold Db.removeValue at hres
      split at hres
      · simp at hres
      · simp only [Option.some.injEq, Prod.mk.injEq] at hres
        rw [← hres.1] at hg'
        by_cases hk : k0 = k
        · subst hk
          have hgv : s.db.getValue k0 = some e := hg
          simp only [hgv] at hg'
          split at hg'
          · simp at hg'
          · simp only [Db.setValueVersion, AL.get?_put_same, Option.some.injEq] at hg'
            subst hg'; simp only []; have := le_vinc e.version; omega
        · cases hgv : s.db.getValue k0 with
          | none => simp only [hgv] at hg'; rw [hg] at hg'; simp at hg'; subst hg'; omega
          | some old =>
            simp only [hgv] at hg'
            split at hg'
            · simp only [AL.get?_erase_other _ hk] at hg'; rw [hg] at hg'; simp at hg'; subst hg'; omega
            · simp only [Db.setValueVersion, AL.get?_put_other _ _ hk] at hg'
              rw [hg] at hg'; simp at hg'; subst hg'; omega
  | inc k0 n =>
    cases hres : s.db.incValue k0 n s.clock with
    | mk db' rest =>
      obtain ⟨r, ps⟩ := rest
      cases r with
      | notNumeric =>
        have e1 : kvStep s (.inc k0 n) = ({ s with clock := s.clock + 1 }, .refused) := by simp [kvStep, hres]
        rw [e1] at hg' ⊢; simp only [] at hg'; rw [hg] at hg'; simp at hg'; subst hg'; simp
      | overflow =>
        have e1 : kvStep s (.inc k0 n) = ({ s with clock := s.clock + 1 }, .refused) := by simp [kvStep, hres]
        rw [e1] at hg' ⊢; simp only [] at hg'; rw [hg] at hg'; simp at hg'; subst hg'; simp
      | versionCap =>
        have e1 : kvStep s (.inc k0 n) = ({ s with clock := s.clock + 1 }, .refused) := by simp [kvStep, hres]
        rw [e1] at hg' ⊢; simp only [] at hg'; rw [hg] at hg'; simp at hg'; subst hg'; simp
      | ok =>
        have e1 : kvStep s (.inc k0 n) = ({ s with db := db', clock := s.clock + 1 }, .ok) := by simp [kvStep, hres]
        rw [e1] at hg' ⊢
        simp only [] at hg'
        unfold Db.incValue at hres
        split at hres
        · split at hres
          · split at hres
            · simp at hres
            simp only [Prod.mk.injEq] at hres
            rw [← hres.1] at hg'
            simp only [Db.incStore] at hg'
            by_cases hk : k0 = k
            · subst hk
              have hgv : s.db.getValue k0 = some e := hg
              simp only [hgv, Db.setValueVersion, AL.get?_put_same, Option.some.injEq] at hg'
              subst hg'; simp only []
              exact ⟨by have := le_vinc e.version; omega, fun _ _ hlt => by rw [vinc_eq _ hlt]; omega⟩
            · have : AL.get? s.db.map k = some e' := by
                cases hgv : s.db.getValue k0 with
                | none => simp only [hgv, Db.setValueVersion, AL.get?_put_other _ _ hk] at hg'; exact hg'
                | some old => simp only [hgv, Db.setValueVersion, AL.get?_put_other _ _ hk] at hg'; exact hg'
              rw [hg] at this; simp at this; subst this
              refine ⟨by omega, ?_⟩
              rintro (⟨v1, ver1, h⟩ | ⟨n1, h⟩)
              · simp at h
              · simp only [KvCmd.inc.injEq] at h; exact absurd h.1 hk
          · simp at hres
        · simp at hres
  | persist r o =>
    -- a snapshot re-writes entries with the version they already have
    have hsd := snapshotDb_sameData s.db s.fs r o s.clock hw k
    cases hres : snapshotDb s.db s.fs r o s.clock with
    | mk db' rest =>
      obtain ⟨fs', c'⟩ := rest
      have e1 : kvStep s (.persist r o) = (({ db := db', fs := fs', clock := c' } : KvSt), .ok) := by simp [kvStep, hres]
      rw [e1] at hg' ⊢
      simp only [] at hg'
      rw [hres] at hsd
      simp only [hg, hg'] at hsd
      refine ⟨by omega, ?_⟩
      rintro (⟨v1, ver1, h⟩ | ⟨n1, h⟩) <;> simp at h

end Nun
