import NunVerif.Props.C11
import NunVerif.Proofs.AL
/-!
# C11 — a keys file never exists without its values file (non-reclaiming snapshots)

The start-up opens BOTH files of every database it finds a keys file for, and cannot start when the
values file is missing.  Since fix 29942f7 the writer creates the values file of a new database first;
this file proves what that buys, on the operation trace the crash enumeration compares with the real
system calls: for EVERY database, file system, iteration order and crash point `n`, if the files were
consistent before (`keys exists → values exists`), they are after the first `n` operations of a
non-reclaiming snapshot.  (The reclaiming snapshot renames and deletes the old files first — the
recorded finding `reclaim-deletes-old-values-first`; it is not covered.)
-/
namespace Nun

/-- the operation does not take the name `p` away -/
def FsOp.Keeps (p : Bytes) : FsOp → Prop
  | .create _ => True
  | .append _ _ => True
  | .pwrite _ _ _ => True
  | .rename a _ => a ≠ p
  | .unlink q => q ≠ p

theorem read_put (fs : Fs) (q p : Bytes) (c : Bytes) (h : (fs.read p).isSome) : (Fs.read (AL.put fs q c) p).isSome := by
  unfold Fs.read at *
  by_cases hq : q = p
  · subst hq; rw [AL.get?_put_same]; rfl
  · rw [AL.get?_put_other _ _ hq]; exact h

theorem applyOp_keeps (fs : Fs) (p : Bytes) (op : FsOp) (hk : op.Keeps p) (h : (fs.read p).isSome) : ((fs.applyOp op).read p).isSome := by
  cases op with
  | create q =>
    simp only [Fs.applyOp]
    split
    · exact h
    · exact read_put fs q p [] h
  | append q d => simp only [Fs.applyOp, Fs.append]; exact read_put fs q p _ h
  | pwrite q o d => simp only [Fs.applyOp, Fs.pwrite]; exact read_put fs q p _ h
  | rename a b =>
    simp only [Fs.applyOp]
    cases ha : fs.read a with
    | none => exact h
    | some c =>
      simp only []
      apply read_put
      unfold Fs.read at *
      rw [AL.get?_erase_other _ hk]; exact h
  | unlink q =>
    simp only [Fs.applyOp]
    unfold Fs.read at *
    rw [AL.get?_erase_other _ hk]; exact h

theorem applyOps_keeps (p : Bytes) (ops : List FsOp) : ∀ (fs : Fs), (∀ op ∈ ops, op.Keeps p) → (fs.read p).isSome → ((fs.applyOps ops).read p).isSome := by
  induction ops with
  | nil => intro fs _ h; exact h
  | cons op t ih =>
    intro fs hall h
    show ((Fs.applyOps (fs.applyOp op) t).read p).isSome
    exact ih _ (fun o ho => hall o (List.mem_cons_of_mem _ ho)) (applyOp_keeps fs p op (hall op List.mem_cons_self) h)

/-- operations that never remove any name -/
def FsOp.Gentle : FsOp → Prop
  | .create _ => True
  | .append _ _ => True
  | .pwrite _ _ _ => True
  | _ => False

theorem FsOp.Gentle.keeps {op : FsOp} (p : Bytes) (h : op.Gentle) : op.Keeps p := by
  cases op <;> first | trivial | (exact absurd h (by simp [FsOp.Gentle]))

theorem flush_gentle (w : BufW) : ∀ op ∈ w.flush.2, op.Gentle := by
  unfold BufW.flush; split
  · intro op h; cases h
  · intro op h; simp only [List.mem_singleton] at h; subst h; trivial

theorem write_gentle (w : BufW) (d : Bytes) : ∀ op ∈ (w.write d).2, op.Gentle := by
  unfold BufW.write
  split
  · intro op h; cases h
  · intro op h
    by_cases hgt : d.length > w.cap - w.buf.length
    · simp only [hgt, if_true] at h
      split at h
      · rcases List.mem_append.1 h with h | h
        · exact flush_gentle w op h
        · simp only [List.mem_singleton] at h; subst h; trivial
      · exact flush_gentle w op h
    · simp only [hgt, if_false] at h
      split at h
      · simp only [List.nil_append, List.mem_singleton] at h; subst h; trivial
      · cases h

theorem writes_gentle (ds : List Bytes) : ∀ (w : BufW) (acc : List FsOp), (∀ op ∈ acc, op.Gentle) →
    ∀ op ∈ (ds.foldl (fun (st : BufW × List FsOp) d => ((st.1.write d).1, st.2 ++ (st.1.write d).2)) (w, acc)).2, op.Gentle := by
  induction ds with
  | nil => intro w acc h; exact h
  | cons d t ih =>
    intro w acc h
    simp only [List.foldl_cons]
    apply ih
    intro op hop
    rcases List.mem_append.1 hop with hop | hop
    · exact h op hop
    · exact write_gentle w d op hop

theorem BufW.writes_eq (w : BufW) (ds : List Bytes) :
    w.writes ds = ds.foldl (fun (st : BufW × List FsOp) d => ((st.1.write d).1, st.2 ++ (st.1.write d).2)) (w, []) := by
  unfold BufW.writes
  congr 1

theorem writes_ops_gentle (w : BufW) (ds : List Bytes) : ∀ op ∈ (w.writes ds).2, op.Gentle := by
  rw [BufW.writes_eq]; exact writes_gentle ds w [] (fun _ h => by cases h)


/-- one turn of the writer's loop of a NON-reclaiming snapshot adds gentle operations only -/
theorem traceKey_gentle (name : Bytes) (s : TraceSt) (k : Bytes) (e : Entry) (h : ∀ op ∈ s.ops, op.Gentle) :
    ∀ op ∈ (traceKey false name s k e).ops, op.Gentle := by
  have hv := writes_ops_gentle s.values [le64 e.value.length, e.value, le32i 0]
  have hk := writes_ops_gentle s.keys [le64 k.length, k, le32i e.version, le64 s.vaddr]
  unfold traceKey
  cases e.state with
  | ok => simpa using h
  | new =>
    simp only []
    generalize s.values.writes [le64 e.value.length, e.value, le32i 0] = rv at hv
    generalize s.keys.writes [le64 k.length, k, le32i e.version, le64 s.vaddr] = rk at hk
    obtain ⟨vw, ops1⟩ := rv; obtain ⟨kw, ops2⟩ := rk
    intro op hop
    simp only [List.mem_append] at hop
    rcases hop with (hop | hop) | hop
    · exact h op hop
    · exact hv op hop
    · exact hk op hop
  | updated =>
    simp only [Bool.not_false, if_true]
    generalize s.values.writes [le64 e.value.length, e.value, le32i 0] = rv at hv
    obtain ⟨vw, ops1⟩ := rv
    intro op hop
    simp only [List.mem_append, List.mem_cons, List.not_mem_nil, or_false] at hop
    rcases hop with (hop | hop) | hop | hop
    · exact h op hop
    · exact hv op hop
    · subst hop; trivial
    · subst hop; trivial
  | deleted =>
    simp only [Bool.not_false, if_true]
    intro op hop
    simp only [List.mem_append, List.mem_cons, List.not_mem_nil, or_false] at hop
    rcases hop with hop | hop | hop
    · exact h op hop
    · subst hop; trivial
    · subst hop; trivial

theorem traceFold_gentle (name : Bytes) (todo : List (Bytes × Entry)) : ∀ (s : TraceSt), (∀ op ∈ s.ops, op.Gentle) →
    ∀ op ∈ (todo.foldl (fun s (x : Bytes × Entry) => traceKey false name s x.1 x.2) s).ops, op.Gentle := by
  induction todo with
  | nil => intro s h; exact h
  | cons x t ih => intro s h; exact ih _ (traceKey_gentle name s x.1 x.2 h)

theorem values_ne_old (name : Bytes) : keysFile name ++ b!".old" ≠ valuesFile name := by
  intro h
  unfold keysFile valuesFile at h
  rw [List.append_assoc] at h
  exact absurd (List.append_cancel_left h) (by decide)

theorem mem_ite_singleton {α : Type} {c : Prop} [Decidable c] {x y : α} (h : y ∈ (if c then [x] else [])) : y = x := by
  split at h
  · simpa using h
  · cases h

/-- every operation of a non-reclaiming snapshot leaves the values file's name alone -/
theorem snapshotOps_keep_values (db : Db) (fs : Fs) (order : List Bytes) :
    ∀ op ∈ snapshotOps db fs false order, op.Keeps (valuesFile db.name) := by
  intro op hop
  unfold snapshotOps at hop
  simp only [Bool.false_and, Bool.false_eq_true, if_false, List.nil_append, List.append_nil, List.mem_append, Fs.applyOps, List.foldl_nil] at hop
  have hlam : (fun (s : TraceSt) (x : Bytes × Entry) => match x with | (k, e) => traceKey false db.name s k e)
      = fun s x => traceKey false db.name s x.1 x.2 := by funext s x; obtain ⟨k, e⟩ := x; rfl
  rw [hlam] at hop
  rcases hop with ((((((hop | hop) | hop) | hop) | hop) | hop) | hop) | hop
  · -- pre0
    rw [mem_ite_singleton hop]; trivial
  · -- pre2
    rw [mem_ite_singleton hop]; trivial
  · -- pre4
    rw [mem_ite_singleton hop]; trivial
  · exact (traceFold_gentle db.name _ _ (fun _ h => by cases h) op hop).keeps _
  · exact (flush_gentle _ op hop).keeps _
  · exact (flush_gentle _ op hop).keeps _
  · -- the metadata file
    simp only [List.mem_append, List.mem_cons, List.not_mem_nil, or_false] at hop
    rcases hop with hop | hop | hop
    · rw [mem_ite_singleton hop]; trivial
    · subst hop; trivial
    · subst hop; trivial
  · -- the left-over backup of a keys file
    rw [mem_ite_singleton hop]; exact values_ne_old db.name

/-- **C11 (non-reclaiming snapshots): a keys file never exists without its values file, at any crash point.**
For every database, file system, iteration order and number `n` of operations carried out before the
kill: if the database's files were consistent before the snapshot (no keys file without a values file —
true of no files at all, and of the files any completed snapshot leaves), they are consistent after the
first `n` operations.  The start-up's `open(values).unwrap()` is therefore never reached with a missing
file through an interrupted non-reclaiming snapshot. -/
theorem C11_keys_file_never_without_values_file (db : Db) (fs : Fs) (order : List Bytes) (n : Nat)
    (h0 : (fs.read (keysFile db.name)).isSome → (fs.read (valuesFile db.name)).isSome) :
    ((fs.applyOps ((snapshotOps db fs false order).take n)).read (keysFile db.name)).isSome →
    ((fs.applyOps ((snapshotOps db fs false order).take n)).read (valuesFile db.name)).isSome := by
  intro hk
  have hkeep : ∀ op ∈ (snapshotOps db fs false order).take n, op.Keeps (valuesFile db.name) :=
    fun op hop => snapshotOps_keep_values db fs order op (List.mem_of_mem_take hop)
  by_cases hv : (fs.read (valuesFile db.name)).isSome
  · exact applyOps_keeps _ _ fs hkeep hv
  · -- a new database: the very first operation creates the values file
    have hk0 : ¬ (fs.read (keysFile db.name)).isSome := fun h => hv (h0 h)
    cases n with
    | zero => simp only [List.take_zero, Fs.applyOps, List.foldl_nil] at hk; exact absurd hk hk0
    | succ m =>
      have hhead : ∃ rest, snapshotOps db fs false order = .create (valuesFile db.name) :: rest := by
        unfold snapshotOps
        simp only [hv, Bool.false_eq_true, if_false, Option.isNone_iff_eq_none]
        have : fs.read (valuesFile db.name) = none := by
          cases hr : fs.read (valuesFile db.name) with
          | none => rfl
          | some c => rw [hr] at hv; exact absurd rfl hv
        simp only [this, if_true, List.singleton_append, List.cons_append, List.nil_append]
        exact ⟨_, rfl⟩
      obtain ⟨rest, hrest⟩ := hhead
      rw [hrest] at hkeep hk ⊢
      simp only [List.take_succ_cons] at hkeep hk ⊢
      show ((Fs.applyOps (fs.applyOp (.create (valuesFile db.name))) (rest.take m)).read (valuesFile db.name)).isSome
      apply applyOps_keeps _ _ _ (fun op hop => hkeep op (List.mem_cons_of_mem _ hop))
      simp only [Fs.applyOp]
      split
      · rename_i h; exact h
      · unfold Fs.read; rw [AL.get?_put_same]; rfl

end Nun
