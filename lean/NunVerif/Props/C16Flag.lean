import NunVerif.Gen.Flag
import NunVerif.Props.C16
import NunVerif.Model.Repl
/-!
# C16 — the oplog-validity flag FILE, byte for byte, with the handles' positions

`Model/Repl.lean` keeps the flag file as `flagFile : Option Nat` — "the byte `is_oplog_valid` reads".
This file justifies that abstraction from the source, not from a reading of it: the sequence of
`seek` / `write` / `read` calls of the three writers and of the reader is REGENERATED from
`disk_ops.rs` on every run (`Gen/Flag.lean`), interpreted here over a file of bytes and a handle
with a position, and proved to keep the file at one byte whose value is the last flag written —
although one of the writers (`invalidate_oplog`) works on the replication thread's long-lived
handle, whose position survives from one call to the next, while the others open a handle of
their own.  Drop the `seek` of that writer and the second invalidation of a process lands at
offset 1: the file reads `[1, 0]`, i.e. still valid, while memory says invalid — and the next
key-map rewrite happens under a flag that vouches for the half-written file.
-/
namespace Nun

/-- POSIX `write` of one byte at `pos` (a hole is filled with zeros) -/
def writeAt (f : List Nat) (pos b : Nat) : List Nat :=
  if pos < f.length then f.set pos b else f ++ List.replicate (pos - f.length) 0 ++ [b]

/-- a file and the position of one handle on it -/
structure FlagFd where
  file : List Nat
  pos : Nat
deriving Repr, DecidableEq

/-- one generated step: (0, n) seek, (1, b) write a byte, (2, _) / (3, _) read (moves nothing we keep) -/
def FlagFd.step (s : FlagFd) (io : Nat × Nat) : FlagFd :=
  match io.1 with
  | 0 => { s with pos := io.2 }
  | 1 => { file := writeAt s.file s.pos io.2, pos := s.pos + 1 }
  | _ => s

def FlagFd.run (s : FlagFd) (ios : List (Nat × Nat)) : FlagFd := ios.foldl FlagFd.step s

/-- what the reader hands back: the steps `(0, n), (2, k), (3, d)` read `k = 1` byte at `n` into a buffer pre-filled with `d` -/
def readFlag (file : List Nat) (ios : List (Nat × Nat)) : Option Nat :=
  match ios with
  | [(0, n), (2, 1), (3, d)] => some ((file[n]?).getD d)
  | _ => none

def flagSite (name : Bytes) : Option (Bool × List (Nat × Nat)) := AL.get? Gen.flagIo name

/-! ### the generated tables, pinned -/

theorem C16_flag_invalidate_seeks_then_writes_0 :
    flagSite b!"invalidate_oplog" = some (false, [(0, 0), (1, 0)]) := by decide +kernel
theorem C16_flag_mark_invalid_seeks_then_writes_0 :
    flagSite b!"mark_op_log_as_invalid_on_disk" = some (true, [(0, 0), (1, 0)]) := by decide +kernel
theorem C16_flag_mark_valid_seeks_then_writes_1 :
    flagSite b!"mark_op_log_as_valid" = some (true, [(0, 0), (1, 1)]) := by decide +kernel
theorem C16_flag_reader_reads_first_byte_default_valid :
    flagSite b!"is_oplog_valid" = some (true, [(0, 0), (2, 1), (3, 1)]) := by decide +kernel
/-- a one-byte write to a `BufWriter` of capacity one goes straight to the file; the handle is opened without `append` / `truncate` -/
theorem C16_flag_writer_is_unbuffered : Gen.flagWriterCapacity = 1 ∧ Gen.flagOpenOptions = [b!"create", b!"write"] := by decide +kernel

/-! ### the machine: memory flag, file, the long-lived handle's position -/

structure FlagSt where
  file : List Nat
  longPos : Nat          -- position of the replication thread's handle
  valid : Bool           -- `dbs.is_oplog_valid`
deriving Repr, DecidableEq

inductive FlagEv
  | invalidate           -- `invalidate_oplog` on the long-lived handle (a new key name)
  | markValid            -- `mark_op_log_as_valid` (end of `snapshot_keys` under an invalid flag)
  | markInvalidOnDisk    -- `mark_op_log_as_invalid_on_disk` (start-up after discarding the log)
  | reopen               -- a new process: the long-lived handle is opened again, memory takes what the file says

def ioOf (name : Bytes) : List (Nat × Nat) := ((flagSite name).map (·.2)).getD []

/-- the byte `is_oplog_valid` returns as a flag -/
def FlagSt.diskValid (s : FlagSt) : Bool :=
  (readFlag s.file (ioOf b!"is_oplog_valid")).getD 1 == 1

def FlagSt.step (s : FlagSt) : FlagEv → FlagSt
  | .invalidate =>
    if s.valid then
      let r := FlagFd.run ⟨s.file, s.longPos⟩ (ioOf b!"invalidate_oplog")
      { file := r.file, longPos := r.pos, valid := false }
    else s
  | .markValid =>
    let r := FlagFd.run ⟨s.file, 0⟩ (ioOf b!"mark_op_log_as_valid")
    { s with file := r.file, valid := true }
  | .markInvalidOnDisk =>
    let r := FlagFd.run ⟨s.file, 0⟩ (ioOf b!"mark_op_log_as_invalid_on_disk")
    { s with file := r.file }
  | .reopen => { s with longPos := 0, valid := s.diskValid }

/-- the abstraction `Model/Repl.lean` works with -/
def FlagSt.abs (s : FlagSt) : Option Nat := s.file.head?

/-- the same events on the abstraction (`Meta.keyId`'s flag write, `Meta.snapshotKeys`', `Meta.restart`'s) -/
def absStep (flag : Option Nat) (valid : Bool) : FlagEv → Option Nat × Bool
  | .invalidate => if valid then (some 0, false) else (flag, valid)
  | .markValid => (some 1, true)
  | .markInvalidOnDisk => (some 0, valid)
  | .reopen => (flag, match flag with | some b => b == 1 | none => true)

theorem ioOf_invalidate : ioOf b!"invalidate_oplog" = [(0, 0), (1, 0)] := by
  unfold ioOf; rw [C16_flag_invalidate_seeks_then_writes_0]; rfl
theorem ioOf_markValid : ioOf b!"mark_op_log_as_valid" = [(0, 0), (1, 1)] := by
  unfold ioOf; rw [C16_flag_mark_valid_seeks_then_writes_1]; rfl
theorem ioOf_markInvalid : ioOf b!"mark_op_log_as_invalid_on_disk" = [(0, 0), (1, 0)] := by
  unfold ioOf; rw [C16_flag_mark_invalid_seeks_then_writes_0]; rfl
theorem ioOf_reader : ioOf b!"is_oplog_valid" = [(0, 0), (2, 1), (3, 1)] := by
  unfold ioOf; rw [C16_flag_reader_reads_first_byte_default_valid]; rfl

/-- seek to the start, write one byte: a file of at most one byte becomes exactly that byte, whatever the handle's position was -/
theorem run_seek0_write (file : List Nat) (pos b : Nat) (h : file.length ≤ 1) :
    FlagFd.run ⟨file, pos⟩ [(0, 0), (1, b)] = ⟨[b], 1⟩ := by
  match file, h with
  | [], _ => rfl
  | [x], _ => rfl

/-- **one event**: the file stays one byte at most, and file and memory move exactly as the abstraction says -/
theorem flag_step (s : FlagSt) (e : FlagEv) (h : s.file.length ≤ 1) :
    (s.step e).file.length ≤ 1 ∧ ((s.step e).abs, (s.step e).valid) = absStep s.abs s.valid e := by
  cases e with
  | invalidate =>
    simp only [FlagSt.step, absStep]
    cases hv : s.valid with
    | true => simp only [if_true, ioOf_invalidate, run_seek0_write s.file s.longPos 0 h]; exact ⟨Nat.le_refl _, rfl⟩
    | false => simp only [Bool.false_eq_true, if_false]; exact ⟨h, by simp [hv]⟩
  | markValid =>
    simp only [FlagSt.step, absStep, ioOf_markValid, run_seek0_write s.file 0 1 h]; exact ⟨Nat.le_refl _, rfl⟩
  | markInvalidOnDisk =>
    simp only [FlagSt.step, absStep, ioOf_markInvalid, run_seek0_write s.file 0 0 h]; exact ⟨Nat.le_refl _, rfl⟩
  | reopen =>
    refine ⟨h, ?_⟩
    simp only [FlagSt.step, absStep, FlagSt.abs, FlagSt.diskValid, ioOf_reader, readFlag]
    match hf : s.file, h with
    | [], _ => rfl
    | [x], _ => rfl

/-- **C16, the flag file**: after ANY history of invalidations through the long-lived handle, marks
through fresh handles and restarts, starting from a missing / empty / one-byte file, the file is at
most one byte and what `is_oplog_valid` reads from it — and the flag in memory — are what the
abstract machine of `Model/Repl.lean` says. -/
theorem C16_flag_file_refines_the_abstract_flag (evs : List FlagEv) :
    ∀ (s : FlagSt), s.file.length ≤ 1 →
      (evs.foldl FlagSt.step s).file.length ≤ 1 ∧
      ((evs.foldl FlagSt.step s).abs, (evs.foldl FlagSt.step s).valid)
        = evs.foldl (fun (a : Option Nat × Bool) e => absStep a.1 a.2 e) (s.abs, s.valid) := by
  induction evs with
  | nil => intro s h; exact ⟨h, rfl⟩
  | cons e rest ih =>
    intro s h
    simp only [List.foldl_cons]
    obtain ⟨h1, h2⟩ := flag_step s e h
    obtain ⟨h3, h4⟩ := ih (s.step e) h1
    exact ⟨h3, by rw [h4, h2]⟩

theorem diskValid_of_file (s : FlagSt) : s.diskValid = ((s.file[0]?).getD 1 == 1) := by
  simp only [FlagSt.diskValid, ioOf_reader, readFlag, Option.getD_some]

/-- in particular: whenever memory says `invalid`, the file says `invalid` — a key map that is being
rewritten is never vouched for by the flag on disk — after ANY history, from any one-byte-at-most file -/
theorem C16_flag_memory_invalid_implies_disk_invalid (evs : List FlagEv) :
    ∀ (s : FlagSt), s.file.length ≤ 1 → (s.valid = false → s.diskValid = false) →
      (evs.foldl FlagSt.step s).valid = false → (evs.foldl FlagSt.step s).diskValid = false := by
  induction evs with
  | nil => intro s _ h0; exact h0
  | cons e rest ih =>
    intro s h h0
    simp only [List.foldl_cons]
    apply ih (s.step e) (flag_step s e h).1
    cases e with
    | invalidate =>
      simp only [FlagSt.step]
      cases hvs : s.valid with
      | true =>
        simp only [if_true, ioOf_invalidate, run_seek0_write s.file s.longPos 0 h]
        intro _; rw [diskValid_of_file]; rfl
      | false => simp only [Bool.false_eq_true, if_false]; intro _; exact h0 hvs
    | markValid => simp [FlagSt.step]
    | markInvalidOnDisk =>
      simp only [FlagSt.step, ioOf_markInvalid, run_seek0_write s.file 0 0 h]
      intro _; rw [diskValid_of_file]; rfl
    | reopen =>
      simp only [FlagSt.step]
      intro hv
      rw [diskValid_of_file] at hv ⊢
      exact hv

/-! ### the bridge to `Model/Repl.lean`: its three flag-writing operations ARE these events -/

theorem meta_keyId_is_invalidate (m : Meta) (key : Bytes) (h : AL.get? m.keysMap key = none) :
    ((m.keyId key).1.flagFile, (m.keyId key).1.valid) = absStep m.flagFile m.valid .invalidate := by
  simp only [Meta.keyId, h, absStep]
  cases hv : m.valid <;> simp

theorem meta_keyId_known_key_leaves_flag (m : Meta) (key : Bytes) (id : Nat) (h : AL.get? m.keysMap key = some id) :
    (m.keyId key).1 = m := by
  simp only [Meta.keyId, h]

theorem meta_snapshotKeys_is_markValid (m : Meta) :
    (m.snapshotKeys.flagFile, m.snapshotKeys.valid) = if m.valid then (m.flagFile, m.valid) else absStep m.flagFile m.valid .markValid := by
  simp only [Meta.snapshotKeys, absStep]
  cases hv : m.valid <;> simp [hv]

/-- a start-up is `reopen`, followed by `mark_op_log_as_invalid_on_disk` when the file said invalid -/
theorem meta_restart_is_reopen (m : Meta) :
    (m.restart.flagFile, m.restart.valid) =
      (let r := absStep m.flagFile m.valid .reopen
       if r.2 then r else absStep r.1 r.2 .markInvalidOnDisk) := by
  unfold Meta.restart Meta.diskValid
  cases hf : m.flagFile with
  | none => simp [absStep]
  | some b => cases hb : (b == 1) <;> simp [absStep, hb]

/-! ### what goes wrong without the seek (the shape of seeded change C11-7): a witness, evaluated -/

/-- the long-lived handle WITHOUT the seek: two invalidations of one process with a mark in between -/
example : (FlagFd.run (FlagFd.run ⟨[], 0⟩ [(1, 0)]) []).file = [0] ∧
    (FlagFd.run ⟨(FlagFd.run ⟨[0], 0⟩ [(0, 0), (1, 1)]).file, 1⟩ [(1, 0)]).file = [1, 0] := by decide

/-- non-vacuity: first key, snapshot, second key, restart — the file ends as `[0]`, memory as invalid -/
example : ([FlagEv.invalidate, .markValid, .invalidate, .reopen].foldl FlagSt.step ⟨[], 0, true⟩) = ⟨[0], 0, false⟩ := by
  decide +kernel

end Nun
