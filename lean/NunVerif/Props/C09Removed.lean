import NunVerif.Props.C09
import NunVerif.Proofs.AL
/-!
# C09 — a user that does not exist, or was removed, cannot log in

`use-db <db> <user> <token>` is decided by `Db.validLogin`.  For EVERY database, user name and offered token:
a user without a `$$user_<name>` entry is refused, a user whose entry is a tombstone is refused, and after
the administrator's `remove $$user_<name>` — whether the key had reached the disk (a tombstone stays in
memory) or not (the entry is erased) — no token whatsoever logs in as that user.  (Before fix 7af9757 the
tombstone's text `<Empty>` was accepted as the removed user's token; the model had the same behaviour and
the correspondence agreed — the defect was found by offering that text, see DESIGN §0a.5.)
-/
namespace Nun

theorem C09_missing_user_cannot_log_in (db : Db) (u token : Bytes) (h : db.getValue (b!"$$user_" ++ u) = none) :
    db.validLogin token (some u) = false := by
  unfold Db.validLogin
  simp only []
  rw [h]

theorem C09_tombstoned_user_cannot_log_in (db : Db) (u token : Bytes) (e : Entry) (h : db.getValue (b!"$$user_" ++ u) = some e)
    (hd : e.state = .deleted) : db.validLogin token (some u) = false := by
  unfold Db.validLogin
  simp only []
  rw [h]
  simp [hd]

/-- **after the user's key was removed, nobody logs in as that user — with any token** -/
theorem C09_removed_user_cannot_log_in (db db' : Db) (u token : Bytes) (ps : List Push)
    (hr : db.removeValue (b!"$$user_" ++ u) = some (db', ps)) : db'.validLogin token (some u) = false := by
  unfold Db.removeValue at hr
  split at hr
  · cases hr
  · simp only [Option.some.injEq, Prod.mk.injEq] at hr
    obtain ⟨h1, _⟩ := hr
    subst h1
    cases hg : db.getValue (b!"$$user_" ++ u) with
    | none => simp only []; exact C09_missing_user_cannot_log_in db u token hg
    | some e =>
      simp only []
      by_cases hn : e.state = .new
      · simp only [hn, if_true]
        apply C09_missing_user_cannot_log_in
        show AL.get? (AL.erase db.map (b!"$$user_" ++ u)) (b!"$$user_" ++ u) = none
        exact AL.get?_erase_same _ _
      · simp only [hn, if_false]
        apply C09_tombstoned_user_cannot_log_in _ u token { value := Gen.tombstoneValue, version := vinc e.version, opId := e.opId, state := .deleted, vaddr := e.vaddr, kaddr := e.kaddr }
        · show AL.get? (AL.put db.map (b!"$$user_" ++ u) _) (b!"$$user_" ++ u) = some _
          exact AL.get?_put_same _ _ _
        · rfl

/-- the token the old code accepted: the tombstone's own text -/
example (db db' : Db) (u : Bytes) (ps : List Push) (hr : db.removeValue (b!"$$user_" ++ u) = some (db', ps)) :
    db'.validLogin Gen.tombstoneValue (some u) = false := C09_removed_user_cannot_log_in db db' u _ ps hr

end Nun
