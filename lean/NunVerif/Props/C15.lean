import NunVerif.Proofs.Pending
/-!
# C15 — pending-operation accounting is exact and acknowledgements are idempotent

Model: `Model/Pending.lean` (`register_pending_opp`, `acknowledge_pending_opp`, `ReplicationMessage`).
Events: `reg op msg node` (one fan-out send) and `ack op node`. All theorems quantify over every
event sequence, any number of operations and nodes.
-/
namespace Nun

/-- An acknowledgement for an operation that is not pending changes nothing. -/
theorem C15_ack_unknown_noop (m : PMap) (op : Nat) (s : Bytes) (h : AL.get? m op = none) :
    m.ack op s = (m, false) := by
  simp [PMap.ack, h]

/-- Acknowledging twice is the same as acknowledging once: the second one is reported as
not counted and leaves the whole table unchanged. -/
theorem C15_ack_idempotent (m : PMap) (op : Nat) (s : Bytes) :
    PMap.ack (m.ack op s).1 op s = ((m.ack op s).1, false) := by
  cases hg : AL.get? m op with
  | none => simp [PMap.ack, hg]
  | some p =>
    have key : ∀ p' : PendingOp, AL.get? p'.replications s = some true →
        PMap.ack (AL.put m op p') op s = (AL.put m op p', false) := by
      intro p' hp'
      have h1 : AL.put p'.replications s true = p'.replications := AL.put_same_value _ _ _ hp'
      have h2 : ({ p' with replications := AL.put p'.replications s true } : PendingOp) = p' := by
        cases p'; simp only [] at h1 ⊢; rw [h1]
      simp only [PMap.ack, AL.get?_put_same, PendingOp.ack, hp', h2, AL.put_put_same]
    cases hprev : AL.get? p.replications s with
    | none =>
      simp only [PMap.ack, hg, PendingOp.ack, hprev]
      exact key _ (by simp)
    | some b =>
      cases b with
      | true =>
        simp only [PMap.ack, hg, PendingOp.ack, hprev]
        exact key _ (by simp)
      | false =>
        by_cases hfull : p.replicateCount = p.ackCount + 1
        · simp [PMap.ack, hg, PendingOp.ack, hprev, PendingOp.fullyAcked, hfull]
        · have e : PMap.ack m op s = (AL.put m op { p with replications := AL.put p.replications s true, ackCount := p.ackCount + 1 }, true) := by
            simp [PMap.ack, hg, PendingOp.ack, hprev, PendingOp.fullyAcked, hfull]
          rw [e]
          exact key _ (by simp)

/-- An acknowledgement from a node the operation was never sent to ("foreign") is not counted,
keeps the operation pending and leaves both counters and every other node's flag unchanged. -/
theorem C15_ack_foreign_keeps_counts (m : PMap) (op : Nat) (s : Bytes) (p : PendingOp)
    (h : AL.get? m op = some p) (hs : AL.get? p.replications s = none) :
    (m.ack op s).2 = false ∧
    ∃ p', AL.get? (m.ack op s).1 op = some p' ∧ p'.ackCount = p.ackCount ∧
      p'.replicateCount = p.replicateCount ∧
      ∀ s', s' ≠ s → AL.get? p'.replications s' = AL.get? p.replications s' := by
  simp only [PMap.ack, h, PendingOp.ack, hs]
  constructor
  · trivial
  · refine ⟨_, AL.get?_put_same _ _ _, rfl, rfl, ?_⟩
    intro s' hne
    exact AL.get?_put_other _ _ (fun e => hne e.symm)

/-- The acknowledgement counter never exceeds the registration counter (no underflow, the
pending count is never negative) — for **every** event sequence, duplicates, early and
foreign acknowledgements included. -/
theorem C15_counts (es : List PEv) (op : Nat) (p : PendingOp)
    (h : AL.get? (PMap.run [] es) op = some p) : p.ackCount ≤ p.replicateCount := by
  have := weakInv_run es [] weakInv_nil op p h
  omega

/-- Exactness: provided no (operation, node) pair is sent again while still unacknowledged,
an operation is reported pending **iff** some node it was sent to has not acknowledged it. -/
theorem C15_exact (es : List PEv) (hn : NoDupReg [] es) (op : Nat) :
    (AL.get? (PMap.run [] es) op).isSome ↔ ∃ s, (op, s) ∈ Outstanding.run [] es := by
  have hinv := mInv_run es [] [] mInv_nil hn op
  cases hg : AL.get? (PMap.run [] es) op with
  | none =>
    simp only [hg] at hinv
    simp only [Option.isSome_none, Bool.false_eq_true, false_iff, not_exists]
    exact hinv
  | some p =>
    simp only [hg] at hinv
    simp only [Option.isSome_some, true_iff]
    obtain ⟨s, hs⟩ := exists_get_of_falses_pos p.replications hinv.nodup hinv.pos
    exact ⟨s, (hinv.mem s).mp hs⟩

/-- With every sent copy acknowledged the pending table is empty again. -/
theorem C15_drained (es : List PEv) (hn : NoDupReg [] es) (h : Outstanding.run [] es = []) :
    PMap.run [] es = [] := by
  have hall : ∀ op, AL.get? (PMap.run [] es) op = none := by
    intro op
    have := (C15_exact es hn op)
    rw [h] at this
    cases hg : AL.get? (PMap.run [] es) op with
    | none => rfl
    | some p => rw [hg] at this; simp at this
  cases hm : PMap.run [] es with
  | nil => rfl
  | cons hd t =>
    obtain ⟨k, v⟩ := hd
    have := hall k
    rw [hm] at this
    simp [AL.get?] at this

/-- The hypothesis of `C15_exact` is necessary: sending the same copy twice before it is
acknowledged leaves the operation pending for ever (unreachable from the fan-out loop, which
iterates over distinct member names). -/
theorem C15_stuck_without_nodup :
    (AL.get? (PMap.run [] [.reg 1 [109] [65], .reg 1 [109] [65], .ack 1 [65]]) 1).isSome = true ∧
    Outstanding.run [] [.reg 1 [109] [65], .reg 1 [109] [65], .ack 1 [65]] = [] := by
  decide

/-- non-vacuity: a two-operation, two-node history with a duplicate, an early and a foreign
acknowledgement satisfies `NoDupReg`, and ends with exactly operation 2 pending. -/
example :
    let es : List PEv := [.ack 1 [65], .reg 1 [109] [65], .reg 1 [109] [66], .ack 1 [65], .ack 1 [65],
                          .ack 1 [67], .reg 2 [109] [65], .ack 1 [66]]
    NoDupReg [] es ∧ (AL.get? (PMap.run [] es) 1).isSome = false ∧ (AL.get? (PMap.run [] es) 2).isSome = true := by
  decide

end Nun
