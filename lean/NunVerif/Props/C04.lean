import NunVerif.Model.Cluster
import NunVerif.Proofs.AL
import NunVerif.Props.C14
import NunVerif.Props.C02
import NunVerif.Props.C13
/-
  C04 — live replication converges: every node ends equal to the primary.

  Message-level facts (for every state and message):
  * the primary's loop queues the message for EVERY secondary with a live connection, once each,
    in member order (`C04_fanout_reaches_every_secondary`);
  * what a node does with a line depends on nothing but its state and the line: two replicas in
    the same state fed the same lines end in the same state (`C04_same_messages_same_state`).
  Cluster-level convergence — and where it fails — is decided on the running cluster by
  checks/c04.py (real nodes, simulated FIFO network, the model in lockstep).
-/
namespace Nun

theorem fanOut_names (opId : Nat) (reqStr : Bytes) (targets : List (Bytes × Member)) (n : Node) (acc : List Ev) :
    (memberSends (.ok (targets.foldl (fun (a : Node × List Ev) (t : Bytes × Member) =>
        ((a.1.registerPending opId reqStr t.1).1,
         a.2 ++ (if t.2.connected then [Ev.toMember t.2.name (a.1.registerPending opId reqStr t.1).2] else []))) (n, acc)).2)).map (·.1)
      = (memberSends (.ok acc)).map (·.1) ++ (targets.filter (·.2.connected)).map (·.2.name) := by
  induction targets generalizing n acc with
  | nil => simp
  | cons t rest ih =>
    simp only [List.foldl_cons]
    rw [ih]
    cases hc : t.2.connected <;> simp [memberSends, hc, List.filterMap_append]

/-- **the primary's fan-out reaches every connected secondary exactly once**, in member order -/
theorem C04_fanout_reaches_every_secondary (n : Node) (opId : Nat) (reqStr : Bytes) (h : n.role = .primary) :
    (memberSends (n.replSend true opId reqStr).2).map (·.1) =
      ((n.members.filter fun (name, mem) => mem.role = .secoundary && name != n.addr).filter (·.2.connected)).map (·.2.name) := by
  unfold Node.replSend
  simp only [h, Node.fanOut]
  have := fanOut_names opId reqStr (n.members.filter fun (name, mem) => mem.role = .secoundary && name != n.addr) n []
  simpa [memberSends] using this

/-- two replicas in the same state that process the same lines (on sessions in the same state) end
in the same state: `process_request` has no hidden per-node input -/
theorem C04_same_messages_same_state (n n' : Node) (sid : Sid) (msgs : List Bytes) (h : n' = n) :
    (msgs.foldl (fun acc m => (acc.exec sid m).1) n') = (msgs.foldl (fun acc m => (acc.exec sid m).1) n) := by
  rw [h]

/-! ### what two replicas agree on -/

/-- what a client can observe of an entry: value, version, removed or not (NOT whether it has been
written to disk, nor the local operation id) -/
def Entry.pub (e : Entry) : Bytes × Int × Bool := (e.value, e.version, e.state == .deleted)

def Db.pubOf (db : Db) (k : Bytes) : Option (Bytes × Int × Bool) := (db.getValue k).map Entry.pub

/-- two replicas hold the same observable data -/
def Db.Agree (a b : Db) : Prop := ∀ k, a.pubOf k = b.pubOf k

/-- the same write as it arrives on another node: same key, value, version and kind, its own operation id -/
def Change.Same (c c' : Change) : Prop := c.key = c'.key ∧ c.value = c'.value ∧ c.version = c'.version ∧ c.resolve = c'.resolve

theorem getValue_setValueVersion (db : Db) (k k' v : Bytes) (ver : Int) (st : Status) (va ka op : Nat) :
    (db.setValueVersion k v ver st va ka op).getValue k' =
      if k = k' then some { value := v, version := ver, opId := op, state := st, vaddr := va, kaddr := ka } else db.getValue k' := by
  simp only [Db.getValue, Db.setValueVersion, AL.get?_put]

theorem updState_not_deleted (s : Status) : (updState s == Status.deleted) = false := by
  unfold updState; split <;> simp

/-- **one write, two replicas**: if they agree before, they agree after — and answer alike — whatever
their local persistence states and operation ids are -/
theorem setValue_agree (a b : Db) (c c' : Change) (h : a.Agree b) (hc : c.Same c') :
    (a.setValue c).1.Agree (b.setValue c').1 ∧
    ((∃ k v, (a.setValue c).2.1 = .set k v) ↔ (∃ k v, (b.setValue c').2.1 = .set k v)) := by
  obtain ⟨hk, hv, hver, hres⟩ := hc
  have hkey := h c.key
  unfold Db.pubOf at hkey
  cases ha : a.getValue c.key with
  | none =>
    rw [ha] at hkey
    have hb : b.getValue c'.key = none := by
      rw [← hk]; cases hb : b.getValue c.key with
      | none => rfl
      | some e => rw [hb] at hkey; simp at hkey
    rw [setValue_absent a c ha, setValue_absent b c' hb]
    refine ⟨?_, by simp⟩
    intro k
    simp only [Db.pubOf, getValue_setValueVersion]
    rw [← hk]
    split
    · simp [Entry.pub, hv, hver]
    · exact h k
  | some ea =>
    rw [ha] at hkey
    obtain ⟨eb, hb, hpub⟩ : ∃ eb, b.getValue c.key = some eb ∧ ea.pub = eb.pub := by
      cases hb : b.getValue c.key with
      | none => rw [hb] at hkey; simp at hkey
      | some eb => rw [hb] at hkey; simp at hkey; exact ⟨eb, rfl, hkey⟩
    have hb' : b.getValue c'.key = some eb := by rw [← hk]; exact hb
    simp only [Entry.pub, Prod.mk.injEq] at hpub
    obtain ⟨hpv, hpver, hpd⟩ := hpub
    have hnv : c.nextVersion ea = c'.nextVersion eb := by
      simp only [Change.nextVersion, Change.keepInConflict, Entry.inConflict, hver, hres, hpver]
      try rfl
    have hkc : c.keepInConflict = c'.keepInConflict := by simp [Change.keepInConflict, hver]
    rw [setValue_on_entry a c ea ha, setValue_on_entry b c' eb hb']
    rw [hnv, hpver, hkc]
    split
    · refine ⟨h, by simp⟩
    · refine ⟨?_, by simp⟩
      intro k
      simp only [Db.pubOf, getValue_setValueVersion]
      rw [← hk]
      split
      · simp [Entry.pub, hv, updState_not_deleted]
      · exact h k

/-- the same sequence of writes as it arrives on another node -/
inductive SameSeq : List Change → List Change → Prop
  | nil : SameSeq [] []
  | cons {c c' : Change} {cs cs' : List Change} : c.Same c' → SameSeq cs cs' → SameSeq (c :: cs) (c' :: cs')

/-- the same writes, in the same order, on two replicas that agree: they still agree at the end
(the sequence is the primary's log delivered over a FIFO link; removes are NOT covered — see below) -/
theorem C04_replicas_agree_on_writes (a b : Db) (cs cs' : List Change) (h : a.Agree b)
    (hs : SameSeq cs cs') :
    (cs.foldl (fun db c => (db.setValue c).1) a).Agree (cs'.foldl (fun db c => (db.setValue c).1) b) := by
  induction hs generalizing a b with
  | nil => exact h
  | cons hc _ ih => exact ih _ _ (setValue_agree a b _ _ h hc).1

/-- FINDING (witness): a remove is where agreement ends. Two replicas hold the same key with the same
value and version, one has written it to disk (state ok), the other not yet (state new): after
`remove; set` the first continues the version history, the second restarts at 0 -/
theorem C04_finding_remove_depends_on_persistence :
    let e (st : Status) : Entry := { value := b!"1", version := 0, opId := 1, state := st, vaddr := 0, kaddr := 0 }
    let a : Db := { (Db.new b!"t" 1 .none) with map := [(b!"a", e .ok)] }
    let b : Db := { (Db.new b!"t" 1 .none) with map := [(b!"a", e .new)] }
    let c : Change := { key := b!"a", value := b!"2", version := -1, opId := 9, resolve := false }
    a.Agree b ∧
    (((a.removeValue b!"a").map fun r => (r.1.setValue c).1.pubOf b!"a") = some (some (b!"2", 2, false))) ∧
    (((b.removeValue b!"a").map fun r => (r.1.setValue c).1.pubOf b!"a") = some (some (b!"2", 0, false))) := by
  refine ⟨?_, by decide +kernel, by decide +kernel⟩
  intro k
  simp only [Db.pubOf, Db.getValue, AL.get?]
  split <;> (try simp [Entry.pub]) <;> decide

end Nun
