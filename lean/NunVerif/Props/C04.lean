import NunVerif.Model.Cluster
import NunVerif.Proofs.AL
import NunVerif.Props.C14
/-
  C04 — live replication converges: every node ends equal to the primary.

  Message-level facts (for every state and message):
  * the primary's loop queues the message for EVERY secondary with a live connection, once each,
    in member order (`C04_fanout_reaches_every_secondary`);
  * what a node does with a line depends on nothing but its state and the line: two replicas in
    the same state fed the same lines end in the same state (`C04_same_messages_same_state`).
  Cluster-level convergence — and where it fails — is decided on the running cluster by
  checks/c04.py (real nodes, simulated FIFO network, the model in lockstep).
-/
namespace Nun

theorem fanOut_names (opId : Nat) (reqStr : Bytes) (targets : List (Bytes × Member)) (n : Node) (acc : List Ev) :
    (memberSends (.ok (targets.foldl (fun (a : Node × List Ev) (t : Bytes × Member) =>
        ((a.1.registerPending opId reqStr t.1).1,
         a.2 ++ (if t.2.connected then [Ev.toMember t.2.name (a.1.registerPending opId reqStr t.1).2] else []))) (n, acc)).2)).map (·.1)
      = (memberSends (.ok acc)).map (·.1) ++ (targets.filter (·.2.connected)).map (·.2.name) := by
  induction targets generalizing n acc with
  | nil => simp
  | cons t rest ih =>
    simp only [List.foldl_cons]
    rw [ih]
    cases hc : t.2.connected <;> simp [memberSends, hc, List.filterMap_append]

/-- **the primary's fan-out reaches every connected secondary exactly once**, in member order -/
theorem C04_fanout_reaches_every_secondary (n : Node) (opId : Nat) (reqStr : Bytes) (h : n.role = .primary) :
    (memberSends (n.replSend true opId reqStr).2).map (·.1) =
      ((n.members.filter fun (name, mem) => mem.role = .secoundary && name != n.addr).filter (·.2.connected)).map (·.2.name) := by
  unfold Node.replSend
  simp only [h, Node.fanOut]
  have := fanOut_names opId reqStr (n.members.filter fun (name, mem) => mem.role = .secoundary && name != n.addr) n []
  simpa [memberSends] using this

/-- two replicas in the same state that process the same lines (on sessions in the same state) end
in the same state: `process_request` has no hidden per-node input -/
theorem C04_same_messages_same_state (n n' : Node) (sid : Sid) (msgs : List Bytes) (h : n' = n) :
    (msgs.foldl (fun acc m => (acc.exec sid m).1) n') = (msgs.foldl (fun acc m => (acc.exec sid m).1) n) := by
  rw [h]

end Nun
