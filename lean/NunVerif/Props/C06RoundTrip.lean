import NunVerif.Props.C06
/-!
# C06 — the byte-level round trip of a space-reclaiming snapshot

`snapshotDb db fs true order clock` followed by `loadDb` on the files it wrote gives back every
entry that is not a tombstone — its value and its version — as a clean entry, and nothing else, for
EVERY database (any number of keys, any values, any versions incl. the in-conflict marker -2), any
previous content of the disk and any hash order; the side conditions are exactly what the real
loader needs: UTF-8 text, sizes below its allocation bound, a values file shorter than 2^64 bytes.

Structure: `encFiles` (the bytes the loop writes) ← `snapFold_reclaim_files` / `snapshotDb_reclaim_files`;
`loadLoop_encFiles` (the loader reads exactly `loadedFrom`); `loadedFrom_mem` / `loadedFrom_other`.
-/
namespace Nun


theorem readInto_at (buf file pre b post : Bytes) (pos : Nat) (hf : file = pre ++ (b ++ post))
    (hl : b.length = buf.length) (hp : pos = pre.length) : readInto buf file pos = (b, b.length) := by
  subst hf; subst hp
  unfold readInto
  have : ((pre ++ (b ++ post)).drop pre.length).take buf.length = b := by
    rw [List.drop_left, ← hl, List.take_left]
  simp only [this, hl, List.drop_length, List.append_nil]

theorem readInto_end (buf file : Bytes) (pos : Nat) (hp : pos = file.length) : (readInto buf file pos).2 = 0 := by
  subst hp; simp [readInto]

structure Storable (k : Bytes) (e : Entry) : Prop where
  klen : k.length < allocBound
  vlen : e.value.length < allocBound
  kutf : validUtf8 k = true
  vutf : validUtf8 e.value = true
  verLo : -2147483648 ≤ e.version
  verHi : e.version ≤ 2147483647
  verNe : e.version ≠ -1

def encFiles : List (Bytes × Entry) → Nat → Bytes × Bytes
  | [], _ => ([], [])
  | (k, e) :: t, va =>
    if e.state = .deleted then encFiles t va
    else
      ((encKey k e.version va) ++ (encFiles t (va + (8 + e.value.length + 4))).1,
       (encValue e.value) ++ (encFiles t (va + (8 + e.value.length + 4))).2)

def loadedFrom : List (Bytes × Entry) → Nat → Nat → Nat → KV → KV
  | [], _, _, _, m => m
  | (k, e) :: t, va, ka, clock, m =>
    if e.state = .deleted then loadedFrom t va ka clock m
    else loadedFrom t (va + (8 + e.value.length + 4)) (ka + keyRecSize k.length) (clock + 1)
      (AL.put m k { value := e.value, version := e.version, opId := clock, state := .ok, vaddr := va, kaddr := ka })

def liveCount : List (Bytes × Entry) → Nat
  | [] => 0
  | (_, e) :: t => (if e.state = .deleted then 0 else 1) + liveCount t

theorem le64_length (v : Nat) : (le64 v).length = 8 := leBytes_length 8 v
theorem le32i_length (v : Int) : (le32i v).length = 4 := by unfold le32i; exact leBytes_length 4 _

theorem allocBound_lt : allocBound < 18446744073709551616 := by decide

theorem loadLoop_encFiles (l : List (Bytes × Entry)) : ∀ (kpre vpre vpost : Bytes) (fuel : Nat) (st : LoadSt),
    (∀ p ∈ l, p.2.state ≠ .deleted → Storable p.1 p.2) →
    st.pos = kpre.length → st.lenBuf.length = 8 → st.addrBuf.length = 8 → st.verBuf.length = 4 →
    vpre.length + (encFiles l vpre.length).2.length < 18446744073709551616 →
    liveCount l < fuel →
    loadLoop (kpre ++ (encFiles l vpre.length).1) (vpre ++ ((encFiles l vpre.length).2 ++ vpost)) fuel st
      = (.ok (loadedFrom l vpre.length st.kaddr st.clock st.map), st.clock + liveCount l) := by
  induction l with
  | nil =>
    intro kpre vpre vpost fuel st _ hpos _ _ _ _ hfuel
    cases fuel with
    | zero => simp [liveCount] at hfuel
    | succ f =>
      simp only [encFiles, List.append_nil, loadLoop, loadedFrom, liveCount, Nat.add_zero]
      have h0 := readInto_end st.lenBuf kpre st.pos hpos
      generalize hr : readInto st.lenBuf kpre st.pos = r at h0
      obtain ⟨b, n⟩ := r
      simp only [] at h0
      subst h0
      simp
  | cons p t ih =>
    obtain ⟨k, e⟩ := p
    intro kpre vpre vpost fuel st hst hpos hl8 ha8 hv4 hfit hfuel
    by_cases hd : e.state = .deleted
    · simp only [encFiles, hd, if_true, loadedFrom, liveCount, Nat.zero_add] at hfit hfuel ⊢
      exact ih kpre vpre vpost fuel st (fun p hp => hst p (List.mem_cons_of_mem _ hp)) hpos hl8 ha8 hv4 hfit hfuel
    · have hS := hst (k, e) (List.mem_cons_self) hd
      simp only [encFiles, hd, if_false, loadedFrom, liveCount] at hfit hfuel ⊢
      cases fuel with
      | zero => omega
      | succ f =>
        generalize hrest : encFiles t (vpre.length + (8 + e.value.length + 4)) = rest at hfit ⊢
        obtain ⟨krest, vrest⟩ := rest
        simp only [] at hfit ⊢
        have hvlen : (encValue e.value).length = 8 + e.value.length + 4 := C06_value_record_size e.value
        -- the keys file, record by record
        have hkeys : kpre ++ (encKey k e.version vpre.length ++ krest)
            = kpre ++ (le64 k.length ++ (k ++ (le32i e.version ++ (le64 vpre.length ++ krest)))) := by
          simp [encKey, List.append_assoc]
        have hvals : vpre ++ (encValue e.value ++ vrest ++ vpost)
            = vpre ++ (le64 e.value.length ++ (e.value ++ (le32i 0 ++ (vrest ++ vpost)))) := by
          simp [encValue, List.append_assoc]
        rw [hkeys, hvals]
        have hkl : k.length < 18446744073709551616 := Nat.lt_trans hS.klen allocBound_lt
        have hvl : e.value.length < 18446744073709551616 := Nat.lt_trans hS.vlen allocBound_lt
        have hva : vpre.length < 18446744073709551616 := by omega
        have r1 := readInto_at st.lenBuf _ kpre (le64 k.length) (k ++ (le32i e.version ++ (le64 vpre.length ++ krest))) st.pos rfl
          (by rw [le64_length, hl8]) hpos
        have r2 := readInto_at (List.replicate k.length 0) (kpre ++ (le64 k.length ++ (k ++ (le32i e.version ++ (le64 vpre.length ++ krest)))))
          (kpre ++ le64 k.length) k (le32i e.version ++ (le64 vpre.length ++ krest)) (st.pos + 8)
          (by simp [List.append_assoc]) (by simp) (by simp [le64_length, hpos])
        have r3 := readInto_at st.verBuf (kpre ++ (le64 k.length ++ (k ++ (le32i e.version ++ (le64 vpre.length ++ krest)))))
          (kpre ++ le64 k.length ++ k) (le32i e.version) (le64 vpre.length ++ krest) (st.pos + 8 + k.length)
          (by simp [List.append_assoc]) (by rw [le32i_length, hv4]) (by simp [le64_length, hpos]; omega)
        have r4 := readInto_at st.addrBuf (kpre ++ (le64 k.length ++ (k ++ (le32i e.version ++ (le64 vpre.length ++ krest)))))
          (kpre ++ le64 k.length ++ k ++ le32i e.version) (le64 vpre.length) krest (st.pos + 8 + k.length + 4)
          (by simp [List.append_assoc]) (by rw [le64_length, ha8]) (by simp [le64_length, le32i_length, hpos]; omega)
        have r5 := readInto_at (le64 k.length) (vpre ++ (le64 e.value.length ++ (e.value ++ (le32i 0 ++ (vrest ++ vpost)))))
          vpre (le64 e.value.length) (e.value ++ (le32i 0 ++ (vrest ++ vpost))) vpre.length rfl
          (by rw [le64_length, le64_length]) rfl
        have r6 := readInto_at (List.replicate e.value.length 0) (vpre ++ (le64 e.value.length ++ (e.value ++ (le32i 0 ++ (vrest ++ vpost)))))
          (vpre ++ le64 e.value.length) e.value (le32i 0 ++ (vrest ++ vpost)) (vpre.length + 8)
          (by simp [List.append_assoc]) (by simp) (by simp [le64_length])
        rw [loadLoop]
        simp only [r1, r2, r3, r4, le64_length, le32i_length, C06_le64_roundtrip k.length hkl, C06_le64_roundtrip vpre.length hva, r5,
          C06_le64_roundtrip e.value.length hvl, r6, C06_version_roundtrip e.version hS.verLo hS.verHi]
        have hk1 : ¬ k.length ≥ allocBound := Nat.not_le.2 hS.klen
        have hv1 : ¬ e.value.length ≥ allocBound := Nat.not_le.2 hS.vlen
        have hne : (e.version != -1) = true := by simpa using hS.verNe
        simp only [hk1, hv1, hS.kutf, hS.vutf, hne, if_true, if_false, Bool.not_true, Bool.false_eq_true, show (8 : Nat) ≠ 0 by decide]
        have hlen' : (vpre ++ encValue e.value).length = vpre.length + (8 + e.value.length + 4) := by simp [hvlen]
        have hklen' : (kpre ++ encKey k e.version vpre.length).length = st.pos + 8 + k.length + 4 + 8 := by
          simp [C06_key_record_size, keyRecSize, hpos]; omega
        have hfit' : (vpre ++ encValue e.value).length + (encFiles t (vpre ++ encValue e.value).length).2.length < 18446744073709551616 := by
          rw [hlen', hrest]; simp only [List.length_append, hvlen] at hfit ⊢; omega
        have h := ih (kpre ++ encKey k e.version vpre.length) (vpre ++ encValue e.value) vpost f
          { pos := st.pos + 8 + k.length + 4 + 8, lenBuf := le64 e.value.length, addrBuf := le64 vpre.length, verBuf := le32i e.version,
            kaddr := st.kaddr + keyRecSize k.length,
            map := AL.put st.map k { value := e.value, version := e.version, opId := st.clock, state := .ok, vaddr := vpre.length, kaddr := st.kaddr },
            clock := st.clock + 1 }
          (fun p hp => hst p (List.mem_cons_of_mem _ hp)) hklen'.symm (le64_length _) (le64_length _) (le32i_length _) hfit' (by omega)
        rw [hlen', hrest] at h
        simp only [] at h
        have e1 : kpre ++ (le64 k.length ++ (k ++ (le32i e.version ++ (le64 vpre.length ++ krest))))
            = kpre ++ encKey k e.version vpre.length ++ krest := by simp [encKey, List.append_assoc]
        have e2 : vpre ++ (le64 e.value.length ++ (e.value ++ (le32i 0 ++ (vrest ++ vpost))))
            = vpre ++ encValue e.value ++ (vrest ++ vpost) := by simp [encValue, List.append_assoc]
        rw [e1, e2, h]; simp only [Nat.add_assoc]



theorem keys_ne_values (n : Bytes) : keysFile n ≠ valuesFile n := by
  unfold keysFile valuesFile; intro h; exact absurd (List.append_cancel_left h) (by decide)
theorem keys_ne_meta (n : Bytes) : keysFile n ≠ metaFile n := by
  unfold keysFile metaFile; intro h; exact absurd (List.append_cancel_left h) (by decide)
theorem values_ne_meta (n : Bytes) : valuesFile n ≠ metaFile n := by
  unfold valuesFile metaFile; intro h; exact absurd (List.append_cancel_left h) (by decide)

theorem read_append_same (fs : Fs) (f d : Bytes) : (fs.append f d).read f = some ((fs.read f).getD [] ++ d) := by
  simp [Fs.append, Fs.read]
theorem read_append_other (fs : Fs) (f g d : Bytes) (h : f ≠ g) : (fs.append f d).read g = fs.read g := by
  simp [Fs.append, Fs.read, AL.get?_put_other _ _ h]

/-- the files after the loop of a space-reclaiming snapshot: every entry that is not a tombstone
appends one value record and one key record that points at it -/
theorem snapFold_reclaim_files (name : Bytes) (l : List (Bytes × Entry)) : ∀ (s : SnapSt) (ks vs : Bytes),
    s.fs.read (keysFile name) = some ks → s.fs.read (valuesFile name) = some vs → s.vaddr = vs.length →
    let s' := l.foldl (fun s (p : Bytes × Entry) => snapKey true name s p.1 p.2) s
    s'.fs.read (keysFile name) = some (ks ++ (encFiles l s.vaddr).1) ∧
    s'.fs.read (valuesFile name) = some (vs ++ (encFiles l s.vaddr).2) := by
  induction l with
  | nil => intro s ks vs hk hv _; simp [encFiles, hk, hv]
  | cons p t ih =>
    obtain ⟨k, e⟩ := p
    intro s ks vs hk hv hva
    simp only [List.foldl_cons]
    have happ : ∀ (db' : Db) (ka c : Nat),
        let s1 : SnapSt := { db := db', fs := (s.fs.append (valuesFile name) (encValue e.value)).append (keysFile name) (encKey k e.version s.vaddr),
                             vaddr := s.vaddr + (8 + e.value.length + 4), kaddr := ka, clock := c }
        e.state ≠ .deleted →
        (t.foldl (fun s (p : Bytes × Entry) => snapKey true name s p.1 p.2) s1).fs.read (keysFile name) = some (ks ++ (encFiles ((k, e) :: t) s.vaddr).1) ∧
        (t.foldl (fun s (p : Bytes × Entry) => snapKey true name s p.1 p.2) s1).fs.read (valuesFile name) = some (vs ++ (encFiles ((k, e) :: t) s.vaddr).2) := by
      intro db' ka c s1 hd
      have hk1 : s1.fs.read (keysFile name) = some (ks ++ encKey k e.version s.vaddr) := by
        show ((s.fs.append (valuesFile name) (encValue e.value)).append (keysFile name) (encKey k e.version s.vaddr)).read (keysFile name) = _
        rw [read_append_same, read_append_other _ _ _ _ (keys_ne_values name).symm, hk]; rfl
      have hv1 : s1.fs.read (valuesFile name) = some (vs ++ encValue e.value) := by
        show ((s.fs.append (valuesFile name) (encValue e.value)).append (keysFile name) (encKey k e.version s.vaddr)).read (valuesFile name) = _
        rw [read_append_other _ _ _ _ (keys_ne_values name), read_append_same, hv]; rfl
      have hva1 : s1.vaddr = (vs ++ encValue e.value).length := by
        show s.vaddr + (8 + e.value.length + 4) = _
        rw [List.length_append, C06_value_record_size, hva]
      have := ih s1 _ _ hk1 hv1 hva1
      simp only [encFiles, hd, if_false, List.append_assoc] at this ⊢
      exact this
    unfold snapKey
    simp only [if_true, Bool.not_true, Bool.false_eq_true, if_false]
    cases hst : e.state with
    | ok => exact happ _ _ _ (by rw [hst]; decide)
    | new => exact happ _ _ _ (by rw [hst]; decide)
    | updated => exact happ _ _ _ (by rw [hst]; decide)
    | deleted =>
      simp only [encFiles, hst, if_true]
      split
      · split
        · exact ih _ ks vs hk hv hva
        · exact ih _ ks vs hk hv hva
      · exact ih _ ks vs hk hv hva

theorem read_erase_same (fs : Fs) (f : Bytes) : Fs.read (AL.erase fs f) f = none := by simp [Fs.read]
theorem read_erase_other (fs : Fs) (f g : Bytes) (h : f ≠ g) : Fs.read (AL.erase fs f) g = fs.read g := by
  simp only [Fs.read]; exact AL.get?_erase_other _ h
theorem read_put_same (fs : Fs) (f d : Bytes) : Fs.read (AL.put fs f d) f = some d := by simp [Fs.read]
theorem read_put_other (fs : Fs) (f g d : Bytes) (h : f ≠ g) : Fs.read (AL.put fs f d) g = fs.read g := by
  simp only [Fs.read]; exact AL.get?_put_other _ _ h

/-- `get_*_file_append_mode` when reclaiming: the old file goes away, an empty one is created -/
def freshFile (fs : Fs) (f : Bytes) : Fs :=
  let fs1 : Fs := if true && (fs.read f).isSome then AL.erase fs f else fs
  if (fs1.read f).isNone then AL.put fs1 f [] else fs1

theorem freshFile_same (fs : Fs) (f : Bytes) : (freshFile fs f).read f = some [] := by
  unfold freshFile
  cases h : fs.read f with
  | none => simp only [h, Option.isSome_none, Bool.and_false, Bool.false_eq_true, if_false, Option.isNone_none, if_true]; exact read_put_same _ _ _
  | some x =>
    simp only [h, Option.isSome_some, Bool.and_true, if_true, read_erase_same, Option.isNone_none]
    exact read_put_same _ _ _

theorem freshFile_other (fs : Fs) (f g : Bytes) (hne : f ≠ g) : (freshFile fs f).read g = fs.read g := by
  unfold freshFile
  cases h : fs.read f with
  | none => simp only [h, Option.isSome_none, Bool.and_false, Bool.false_eq_true, if_false, Option.isNone_none, if_true]; exact read_put_other _ _ _ _ hne
  | some x =>
    simp only [h, Option.isSome_some, Bool.and_true, if_true, read_erase_same, Option.isNone_none]
    rw [read_put_other _ _ _ _ hne, read_erase_other _ _ _ hne]

theorem read_writeMeta_other (fs : Fs) (db : Db) (f : Bytes) (h : f ≠ metaFile db.name) : (fs.writeMeta db).read f = fs.read f := by
  simp only [Fs.writeMeta, Fs.pwrite, Fs.read]
  rw [AL.get?_put_other _ _ (Ne.symm h), AL.get?_put_other _ _ (Ne.symm h)]

/-- the entries a snapshot writes, in the order it writes them -/
def snapOrder (db : Db) (reclaim : Bool) (order : List Bytes) : List (Bytes × Entry) :=
  (db.map.filter fun (_, e) => e.state != .ok || reclaim).foldr (insertByIx order) []

/-- **the files of a space-reclaiming snapshot**, byte for byte: for any database, any previous
files and any hash order, the keys file and the values file are exactly the records of the
entries that are not tombstones, in the order written -/
theorem snapshotDb_reclaim_files (db : Db) (fs : Fs) (order : List Bytes) (clock : Nat) :
    (snapshotDb db fs true order clock).2.1.read (keysFile db.name) = some (encFiles (snapOrder db true order) 0).1 ∧
    (snapshotDb db fs true order clock).2.1.read (valuesFile db.name) = some (encFiles (snapOrder db true order) 0).2 := by
  have hfs : ∀ fs0 : Fs, (freshFile (freshFile fs0 (keysFile db.name)) (valuesFile db.name)).read (keysFile db.name) = some [] ∧
      (freshFile (freshFile fs0 (keysFile db.name)) (valuesFile db.name)).read (valuesFile db.name) = some [] := by
    intro fs0
    exact ⟨by rw [freshFile_other _ _ _ (keys_ne_values db.name).symm, freshFile_same], freshFile_same _ _⟩
  have hsnap : (snapshotDb db fs true order clock).2.1 = Fs.writeMeta (List.foldl (fun s (x : Bytes × Entry) => match x with | (k, e) => snapKey true db.name s k e)
      { db := db, fs := freshFile (freshFile fs (keysFile db.name)) (valuesFile db.name),
        vaddr := (freshFile (freshFile fs (keysFile db.name)) (valuesFile db.name)).size (valuesFile db.name),
        kaddr := (freshFile (freshFile fs (keysFile db.name)) (valuesFile db.name)).size (keysFile db.name), clock := clock }
      (snapOrder db true order)).fs db := rfl
  have hlam : (fun (s : SnapSt) (x : Bytes × Entry) => match x with | (k, e) => snapKey true db.name s k e)
      = fun s p => snapKey true db.name s p.1 p.2 := by funext s x; obtain ⟨k, e⟩ := x; rfl
  rw [hsnap, hlam]
  obtain ⟨hk0, hv0⟩ := hfs fs
  have hsz : (freshFile (freshFile fs (keysFile db.name)) (valuesFile db.name)).size (valuesFile db.name) = 0 := by
    simp [Fs.size, hv0]
  have := snapFold_reclaim_files db.name (snapOrder db true order)
    { db := db, fs := freshFile (freshFile fs (keysFile db.name)) (valuesFile db.name),
      vaddr := (freshFile (freshFile fs (keysFile db.name)) (valuesFile db.name)).size (valuesFile db.name),
      kaddr := (freshFile (freshFile fs (keysFile db.name)) (valuesFile db.name)).size (keysFile db.name), clock := clock }
    [] [] hk0 hv0 (by simp [hsz])
  simp only [hsz, List.nil_append] at this
  rw [read_writeMeta_other _ _ _ (keys_ne_meta db.name), read_writeMeta_other _ _ _ (values_ne_meta db.name)]
  simp only [hsz]
  exact this



/-- keys not written (absent, or tombstones only) keep whatever the map held before -/
theorem loadedFrom_other (l : List (Bytes × Entry)) (k : Bytes) : ∀ (va ka c : Nat) (m : KV),
    (∀ e, (k, e) ∈ l → e.state = .deleted) → AL.get? (loadedFrom l va ka c m) k = AL.get? m k := by
  induction l with
  | nil => intro va ka c m _; rfl
  | cons p t ih =>
    obtain ⟨k0, e0⟩ := p
    intro va ka c m h
    simp only [loadedFrom]
    have ht : ∀ e, (k, e) ∈ t → e.state = .deleted := fun e he => h e (List.mem_cons_of_mem _ he)
    split
    · exact ih _ _ _ _ ht
    · rename_i hd
      rw [ih _ _ _ _ ht]
      have hne : k0 ≠ k := by
        intro heq; subst heq
        exact hd (h e0 List.mem_cons_self)
      exact AL.get?_put_other _ _ hne

/-- every written entry is found again, with its value and version, as a clean (`Ok`) entry -/
theorem loadedFrom_mem (l : List (Bytes × Entry)) (hn : (l.map (·.1)).Nodup) (k : Bytes) (e : Entry) : ∀ (va ka c : Nat) (m : KV),
    (k, e) ∈ l → e.state ≠ .deleted →
    ∃ e', AL.get? (loadedFrom l va ka c m) k = some e' ∧ e'.value = e.value ∧ e'.version = e.version ∧ e'.state = .ok := by
  induction l with
  | nil => intro _ _ _ _ h; cases h
  | cons p t ih =>
    obtain ⟨k0, e0⟩ := p
    intro va ka c m hmem hd
    simp only [List.map_cons, List.nodup_cons] at hn
    simp only [loadedFrom]
    rcases List.mem_cons.1 hmem with heq | ht
    · cases heq
      simp only [hd, if_false]
      -- the rest of the list does not mention k
      have hrest : ∀ e', (k, e') ∈ t → e'.state = .deleted := by
        intro e' he'
        exact absurd (List.mem_map.2 ⟨(k, e'), he', rfl⟩) hn.1
      rw [loadedFrom_other t k _ _ _ _ hrest, AL.get?_put_same]
      exact ⟨_, rfl, rfl, rfl, rfl⟩
    · split
      · exact ih hn.2 _ _ _ _ ht hd
      · exact ih hn.2 _ _ _ _ ht hd


theorem liveCount_le (l : List (Bytes × Entry)) : ∀ va, liveCount l ≤ (encFiles l va).1.length := by
  induction l with
  | nil => intro _; simp [liveCount]
  | cons p t ih =>
    obtain ⟨k, e⟩ := p
    intro va
    simp only [liveCount, encFiles]
    split
    · simpa using ih va
    · have := ih (va + (8 + e.value.length + 4))
      simp only [List.length_append, C06_key_record_size, keyRecSize]
      omega

theorem snapOrder_reclaim_spec (db : Db) (order : List Bytes) (hn : AL.NoDupKeys db.map) :
    ((snapOrder db true order).map (·.1)).Nodup ∧ ∀ p, p ∈ snapOrder db true order ↔ p ∈ db.map := by
  unfold snapOrder
  have hf : (db.map.filter fun (x : Bytes × Entry) => x.2.state != .ok || true) = db.map := by
    apply List.filter_eq_self.2; intro a _; simp
  have hf' : (db.map.filter fun (x : Bytes × Entry) => match x with | (_, e) => e.state != .ok || true) = db.map := by
    apply List.filter_eq_self.2; intro a _; obtain ⟨_, _⟩ := a; simp
  rw [hf']
  exact sortByIx_spec order db.map hn

/-- **C06, byte-level round trip (space-reclaiming snapshot).**  For every database with distinct
keys whose live entries are storable, any previous disk content, any hash order and any clocks:
loading the files the snapshot wrote succeeds, every entry that is not a tombstone comes back with
its value and version as a clean entry, and a key that was absent or a tombstone is absent. -/
theorem C06_reclaim_roundtrip (db : Db) (fs : Fs) (order : List Bytes) (clock clock' : Nat)
    (hn : AL.NoDupKeys db.map)
    (hs : ∀ k e, AL.get? db.map k = some e → e.state ≠ .deleted → Storable k e)
    (hfit : (snapshotDb db fs true order clock).2.1.size (valuesFile db.name) < 18446744073709551616) :
    ∃ m c, loadDb (snapshotDb db fs true order clock).2.1 db.name clock' = (.ok m, c) ∧
      (∀ k e, AL.get? db.map k = some e → e.state ≠ .deleted →
          ∃ e', AL.get? m k = some e' ∧ e'.value = e.value ∧ e'.version = e.version ∧ e'.state = .ok) ∧
      (∀ k, (∀ e, AL.get? db.map k = some e → e.state = .deleted) → AL.get? m k = none) := by
  obtain ⟨hkf, hvf⟩ := snapshotDb_reclaim_files db fs order clock
  obtain ⟨hnd, hmem⟩ := snapOrder_reclaim_spec db order hn
  have hfit' : ([] : Bytes).length + (encFiles (snapOrder db true order) ([] : Bytes).length).2.length < 18446744073709551616 := by
    simpa [Fs.size, hvf] using hfit
  have hstor : ∀ p ∈ snapOrder db true order, p.2.state ≠ .deleted → Storable p.1 p.2 := by
    intro p hp hd
    obtain ⟨k, e⟩ := p
    exact hs k e ((AL.mem_iff_get?_of_noDup db.map k e hn).1 ((hmem (k, e)).1 hp)) hd
  have hload := loadLoop_encFiles (snapOrder db true order) [] [] [] ((encFiles (snapOrder db true order) 0).1.length + 1)
    { clock := clock' } hstor rfl rfl rfl rfl hfit' (Nat.lt_succ_of_le (liveCount_le _ 0))
  refine ⟨loadedFrom (snapOrder db true order) 0 0 clock' [], clock' + liveCount (snapOrder db true order), ?_, ?_, ?_⟩
  · unfold loadDb
    rw [hkf, hvf]
    simpa using hload
  · intro k e hg hd
    exact loadedFrom_mem _ hnd k e 0 0 clock' [] ((hmem (k, e)).2 (AL.mem_of_get? db.map k e hg)) hd
  · intro k hall
    rw [loadedFrom_other (snapOrder db true order) k 0 0 clock' []]
    · rfl
    · intro e he
      exact hall e ((AL.mem_iff_get?_of_noDup db.map k e hn).1 ((hmem (k, e)).1 he))

/-- the live data of a loaded map: key ↦ (value, version), removed keys left out -/
def liveView (m : KV) (k : Bytes) : Option (Bytes × Int) :=
  (AL.get? m k).bind fun e => if e.state = .deleted then none else some (e.value, e.version)

/-! ## Non-vacuity: a database with a new key, a tombstone and a non-ASCII key at the in-conflict version meets every hypothesis -/

def c06Db : Db := { Db.new b!"t" 1 .none with
  map := [(b!"a", { value := b!"one", version := 0, opId := 1, state := .new, vaddr := 0, kaddr := 0 }),
          (b!"gone", { value := b!"<Empty>", version := 3, opId := 2, state := .deleted, vaddr := 0, kaddr := 0 }),
          ([104, 195, 169], { value := b!"two words", version := -2, opId := 3, state := .updated, vaddr := 7, kaddr := 9 })] }
example : AL.NoDupKeys c06Db.map := by unfold AL.NoDupKeys; decide
example : ∀ k e, AL.get? c06Db.map k = some e → e.state ≠ .deleted → Storable k e := by
  intro k e h hd
  have hm := AL.mem_of_get? _ _ _ h
  simp only [c06Db, List.mem_cons, Prod.mk.injEq, List.not_mem_nil, or_false] at hm
  rcases hm with ⟨rfl, rfl⟩ | ⟨rfl, rfl⟩ | ⟨rfl, rfl⟩
  · exact ⟨by decide, by decide, by decide, by decide, by decide, by decide, by decide⟩
  · exact absurd rfl hd
  · exact ⟨by decide, by decide, by decide, by decide, by decide, by decide, by decide⟩
example : (snapshotDb c06Db [] true [[104, 195, 169], b!"a"] 5).2.1.size (valuesFile c06Db.name) < 18446744073709551616 := by decide +kernel

end Nun
