import NunVerif.Props.C14Burst
import NunVerif.Props.C04Data
/-!
# C14 — the burst of an accepted `remove` and of an accepted `increment`, hop by hop

`Props/C14Burst.lean` composes the five hops of the burst of one client `set` / `set-safe`.  The same
composition for the other two data commands: the command puts ONE envelope on the primary's
replication channel (`primary_remove_emits` / `primary_inc_emits`, Props/C04Data), the loop queues
that envelope once per connected secondary and for nobody else, a secondary that executes it stays
quiet, its loop sends nothing, the acknowledgement is silent.
-/
namespace Nun
open Bytes

/-- a secondary that executes the envelope of a remove stays quiet -/
theorem secondary_remove_envelope_is_quiet (T : Node) (link : Sid) (id : Nat) (d k : Bytes) (dbT : Db) (fuel : Nat)
    (hauth : (T.session link).auth = true) (hdb : T.db? d = some dbT)
    (hd : 32 ∉ d) (hnl : 10 ∉ k) (hsemi : k.getLast? ≠ some 59) (hid : id < u64Bound) :
    ∀ e ∈ (Node.processRequestWith (Node.recurOf (fuel + 1)) T link (rpLine id (replicateRemoveMsg d k))).2.2, e.Quiet := by
  have h10 := replicateRemoveMsg_last d k 10 (by decide) (last_ne_of_not_mem k 10 hnl)
  have h59 := replicateRemoveMsg_last d k 59 (by decide) hsemi
  have hne : replicateRemoveMsg d k ≠ [] := by rw [replicateRemoveMsg_shape]; simp
  have htrim : Bytes.trimBoth 10 (replicateRemoveMsg d k) = replicateRemoveMsg d k :=
    trimBoth_id 10 _ (by rw [replicateRemoveMsg_shape]; simp) h10
  have hparse : Request.parse (Bytes.trimBoth 10 (replicateRemoveMsg d k)) = .ok (.replicateRemove d k) := by
    rw [htrim]; exact parse_replicateRemoveMsg d k hd hnl hsemi
  rw [processRequestWith_of_parse _ _ _ _ _ (parse_trim_rpLine id _ hid hne h59 h10)]
  have inner : ∀ e ∈ (Node.recurOf (fuel + 1) T link (replicateRemoveMsg d k)).2.2, e.Quiet := by
    simp only [Node.recurOf]
    rw [processRequestWith_of_parse _ _ _ _ _ hparse]
    simp only [Node.processObj, hauth, hdb, Bool.not_true, Bool.false_eq_true, if_false]
    cases hr : dbT.removeValue k with
    | none =>
      simp only []
      have hq2 := replicateRequest_quiet T (Request.replicateRemove d k) (T.session link).db (.error Gen.tokenRemoveMsg)
      generalize Node.replicateRequest T (Request.replicateRemove d k) (T.session link).db (.error Gen.tokenRemoveMsg) = rr at hq2
      obtain ⟨n2, r2, e2⟩ := rr
      intro e he
      simp only [List.nil_append] at he
      exact hq2 e he
    | some p =>
      obtain ⟨db', ps⟩ := p
      simp only []
      have hq2 := replicateRequest_quiet (T.setDb db') (Request.replicateRemove d k) (T.session link).db .ok
      generalize Node.replicateRequest (T.setDb db') (Request.replicateRemove d k) (T.session link).db .ok = rr at hq2
      obtain ⟨n2, r2, e2⟩ := rr
      intro e he
      simp only [List.mem_append] at he
      rcases he with he | he
      · exact quiet_pushes ps e he
      · exact hq2 e he
  have hnoenv : Bytes.startsWith (Bytes.trimBoth 10 (replicateRemoveMsg d k)) b!"rp " = false := by
    rw [htrim, replicateRemoveMsg_shape]; simp [Bytes.startsWith]
  simp only [Node.processObj, hnoenv, Bool.false_eq_true, if_false]
  generalize Node.recurOf (fuel + 1) T link (replicateRemoveMsg d k) = res at inner
  obtain ⟨n1, r1, e1⟩ := res
  simp only [] at inner ⊢
  have hq2 := replicateRequest_quiet n1 (Request.replicateRequest (replicateRemoveMsg d k) id) (T.session link).db r1
  generalize Node.replicateRequest n1 (Request.replicateRequest (replicateRemoveMsg d k) id) (T.session link).db r1 = rr at hq2
  obtain ⟨n2, r2, e2⟩ := rr
  intro e he
  simp only [List.mem_append, List.mem_cons] at he
  rcases he with (he | he) | he
  · rw [he]; trivial
  · exact inner e he
  · exact hq2 e he

/-- the loop's handling of the envelope of a replicated remove on a node that holds the database -/
theorem replStep_of_remove_envelope (n : Node) (m : Meta) (id : Nat) (d k : Bytes) (db : Db)
    (hdb : n.db? d = some db) (hd : 32 ∉ d) (hnl : 10 ∉ k) (hsemi : k.getLast? ≠ some 59) (hid : id < u64Bound) :
    (n.replStep m (rpLine id (replicateRemoveMsg d k))).2.2 = (n.replSend true id (replicateRemoveMsg d k)).2 := by
  have h59 := replicateRemoveMsg_last d k 59 (by decide) hsemi
  have hne : replicateRemoveMsg d k ≠ [] := by rw [replicateRemoveMsg_shape]; simp
  unfold Node.replStep
  rw [parse_rpLine id _ hid hne h59]
  simp only [parse_replicateRemoveMsg d k hd hnl hsemi, hdb, Option.map_some]


/-- what an accepted remove on the primary leaves alone -/
theorem primary_remove_frame (recur : Node → Sid → Bytes → Node × Out) (P : Node) (sid : Sid) (key : Bytes) (dbP db' : Db) (ps : List Push)
    (hnames : NamesOk P) (hrole : P.role = .primary) (hacc : P.safeAccess sid key .remove = .granted dbP)
    (hrm : dbP.removeValue key = some (db', ps)) :
    let res : Node × Out :=
      match Node.processObj recur P sid (.remove key) with
      | (n', r, evs) =>
        match Node.replicateRequest n' (.remove key) (P.session sid).db r with
        | (n'', r', evs') => (n'', r', evs ++ evs')
    res.1.members = P.members ∧ res.1.addr = P.addr ∧ res.1.pending = P.pending := by
  obtain ⟨d, hsel, hd⟩ := safeAccess_selected P sid key .remove dbP hacc
  have hname : dbP.name = d := hnames d dbP hd
  intro res
  have hres : res =
      (match Node.processObj recur P sid (.remove key) with
      | (n', r, evs) =>
        match Node.replicateRequest n' (.remove key) (P.session sid).db r with
        | (n'', r', evs') => (n'', r', evs ++ evs')) := rfl
  simp only [Node.processObj, hacc, Node.withAccess] at hres
  have hprim : P.isPrimary = true := by simp [Node.isPrimary, hrole]
  rw [hrm] at hres
  obtain ⟨hnm, _⟩ := removeValue_frame dbP key db' ps hrm
  have hfound : (P.setDb db').db? d = some db' := by simp [Node.setDb, Node.db?, ← hname, ← hnm]
  simp only [hprim, Bool.not_true, Bool.false_eq_true, if_false, List.append_nil, Node.replicateRequest, Resp.isError, hsel, hfound,
    Option.isNone_some, Node.replicateRequestCore, Node.replicateWeb, Node.tick, Option.getD_some] at hres
  rw [hres]
  exact ⟨by simp [Node.setDb], by simp [Node.setDb], by simp [Node.setDb]⟩

/-- **the burst of one accepted client `remove`, end to end.**  The command puts ONE envelope
(`rp <id> replicate-remove <db> <key>`) on the primary's replication channel; the loop queues that
envelope once for every connected secondary and for nobody else; a secondary that executes it emits an
acknowledgement on the link, `removed` lines to its own watchers and a line for its own loop, which its
loop drops; an acknowledgement is handled in silence. -/
theorem C14_remove_burst (recur : Node → Sid → Bytes → Node × Out) (P : Node) (m : Meta) (sid : Sid) (key : Bytes) (dbP db' : Db) (ps : List Push)
    (hnP : NamesOk P) (hrole : P.role = .primary)
    (hacc : P.safeAccess sid key .remove = .granted dbP)
    (hd : 32 ∉ dbP.name) (hnl : 10 ∉ key) (hsemi : key.getLast? ≠ some 59) (hclock : P.clock < u64Bound)
    (hfresh : AL.get? P.pending P.clock = none)
    (hok : dbP.removeValue key = some (db', ps)) :
    let res : Node × Out :=
      match Node.processObj recur P sid (.remove key) with
      | (n', r, evs) =>
        match Node.replicateRequest n' (.remove key) (P.session sid).db r with
        | (n'', r', evs') => (n'', r', evs ++ evs')
    let env := rpLine P.clock (replicateRemoveMsg dbP.name key)
    replLines res.2.2 = [env] ∧
    (memberSends (res.1.replStep m env).2.2).map (·.1) =
        ((P.members.filter fun (name, mem) => mem.role = .secoundary && name != P.addr).filter (·.2.connected)).map (·.2.name) ∧
    (∀ p ∈ memberSends (res.1.replStep m env).2.2, p.2 = env) ∧
    (∀ (T : Node) (link : Sid) (dbT : Db) (fuel : Nat), (T.session link).auth = true → T.db? dbP.name = some dbT →
        ∀ e ∈ (Node.processRequestWith (Node.recurOf (fuel + 1)) T link env).2.2, e.Quiet) ∧
    (∀ (T : Node) (mT : Meta) (line : Bytes), T.role = .secoundary → memberSends (T.replStep mT line).2.2 = []) ∧
    (∀ (fuel : Node → Sid → Bytes → Node × Out) (n : Node) (s : Sid) (op : Nat) (server : Bytes),
        (n.processObj fuel s (.acknowledge op server)).2.2 = []) := by
  intro res env
  have hE := primary_remove_emits recur P sid key dbP hnP hrole hacc
  simp only [hok] at hE
  obtain ⟨hdbs, hlines, hr⟩ := hE
  obtain ⟨hmem, haddr, hpend⟩ := primary_remove_frame recur P sid key dbP db' ps hnP hrole hacc hok
  have hdbs' : res.1.dbs = AL.put P.dbs dbP.name db' := hdbs
  have hfound : res.1.db? dbP.name = some db' := by
    show AL.get? res.1.dbs dbP.name = _
    rw [hdbs']; simp
  have hstep := replStep_of_remove_envelope res.1 m P.clock dbP.name key db' hfound hd hnl hsemi hclock
  have hrole' : res.1.role = .primary := by
    have : res.1.role = P.role := hr
    rw [this]; exact hrole
  have hpend' : PendOk res.1 P.clock (replicateRemoveMsg dbP.name key) := by
    intro p hp
    have : res.1.pending = P.pending := hpend
    rw [this, hfresh] at hp; cases hp
  refine ⟨hlines, ?_, ?_, ?_, ?_, ?_⟩
  · rw [hstep, C04_fanout_reaches_every_secondary res.1 _ _ hrole']
    have h1 : res.1.members = P.members := hmem
    have h2 : res.1.addr = P.addr := haddr
    rw [h1, h2]
  · rw [hstep]; exact loop_copies_are_the_envelope res.1 _ _ hpend'
  · intro T link dbT fuel hauth hdbT
    exact secondary_remove_envelope_is_quiet T link P.clock dbP.name key dbT fuel hauth hdbT hd hnl hsemi hclock
  · intro T mT line hT; exact C14_secondary_never_fans_out T mT line hT
  · intro fuel n s op server; exact C14_ack_is_silent fuel n s op server


/-! ### increment -/

/-- a secondary that executes the envelope of an increment stays quiet -/
theorem secondary_inc_envelope_is_quiet (T : Node) (link : Sid) (id : Nat) (d k : Bytes) (inc : Int) (dbT : Db) (fuel : Nat)
    (hauth : (T.session link).auth = true) (hdb : T.db? d = some dbT)
    (hd : 32 ∉ d) (hk : 32 ∉ k) (hdnl : 10 ∉ d) (hv : fitsI32 inc = true) (hid : id < u64Bound) :
    ∀ e ∈ (Node.processRequestWith (Node.recurOf (fuel + 1)) T link (rpLine id (replicateIncMsg d k inc))).2.2, e.Quiet := by
  have h10 := replicateIncMsg_last d k inc 10 (by decide) (by decide)
  have h59 := replicateIncMsg_last d k inc 59 (by decide) (by decide)
  have hne : replicateIncMsg d k inc ≠ [] := by rw [replicateIncMsg_shape]; simp
  have htrim : Bytes.trimBoth 10 (replicateIncMsg d k inc) = replicateIncMsg d k inc :=
    trimBoth_id 10 _ (by rw [replicateIncMsg_shape]; simp) h10
  have hparse : Request.parse (Bytes.trimBoth 10 (replicateIncMsg d k inc)) = .ok (.replicateIncrement d k inc) := by
    rw [htrim]; exact parse_replicateIncMsg d k inc hd hk hdnl hv
  rw [processRequestWith_of_parse _ _ _ _ _ (parse_trim_rpLine id _ hid hne h59 h10)]
  have inner : ∀ e ∈ (Node.recurOf (fuel + 1) T link (replicateIncMsg d k inc)).2.2, e.Quiet := by
    simp only [Node.recurOf]
    rw [processRequestWith_of_parse _ _ _ _ _ hparse]
    simp only [Node.processObj, hauth, hdb, Bool.not_true, Bool.false_eq_true, if_false, Node.tick]
    generalize dbT.incValue k inc T.clock = res
    obtain ⟨db', resp, ps⟩ := res
    simp only []
    generalize hn1 : (({ T with clock := T.clock + 1 } : Node).setDb db') = n1
    have hq2 := replicateRequest_quiet n1 (Request.replicateIncrement d k inc) (T.session link).db
    intro e he
    simp only [List.mem_append] at he
    rcases he with he | he
    · exact quiet_pushes ps e he
    · exact hq2 _ e he
  have hnoenv : Bytes.startsWith (Bytes.trimBoth 10 (replicateIncMsg d k inc)) b!"rp " = false := by
    rw [htrim, replicateIncMsg_shape]; simp [Bytes.startsWith]
  simp only [Node.processObj, hnoenv, Bool.false_eq_true, if_false]
  generalize Node.recurOf (fuel + 1) T link (replicateIncMsg d k inc) = res at inner
  obtain ⟨n1, r1, e1⟩ := res
  simp only [] at inner ⊢
  have hq2 := replicateRequest_quiet n1 (Request.replicateRequest (replicateIncMsg d k inc) id) (T.session link).db r1
  generalize Node.replicateRequest n1 (Request.replicateRequest (replicateIncMsg d k inc) id) (T.session link).db r1 = rr at hq2
  obtain ⟨n2, r2, e2⟩ := rr
  intro e he
  simp only [List.mem_append, List.mem_cons] at he
  rcases he with (he | he) | he
  · rw [he]; trivial
  · exact inner e he
  · exact hq2 e he

theorem replStep_of_inc_envelope (n : Node) (m : Meta) (id : Nat) (d k : Bytes) (inc : Int) (db : Db)
    (hdb : n.db? d = some db) (hd : 32 ∉ d) (hk : 32 ∉ k) (hdnl : 10 ∉ d) (hv : fitsI32 inc = true) (hid : id < u64Bound) :
    (n.replStep m (rpLine id (replicateIncMsg d k inc))).2.2 = (n.replSend true id (replicateIncMsg d k inc)).2 := by
  have h59 := replicateIncMsg_last d k inc 59 (by decide) (by decide)
  have hne : replicateIncMsg d k inc ≠ [] := by rw [replicateIncMsg_shape]; simp
  unfold Node.replStep
  rw [parse_rpLine id _ hid hne h59]
  simp only [parse_replicateIncMsg d k inc hd hk hdnl hv, hdb, Option.map_some]


/-- what an accepted increment on the primary leaves alone -/
theorem primary_inc_frame (recur : Node → Sid → Bytes → Node × Out) (P : Node) (sid : Sid) (key : Bytes) (inc : Int) (dbP : Db)
    (hnames : NamesOk P) (hrole : P.role = .primary) (hacc : P.safeAccess sid key .increment = .granted dbP)
    (hok : (dbP.incValue key inc P.clock).2.1 = .ok) :
    let res : Node × Out :=
      match Node.processObj recur P sid (.increment key inc) with
      | (n', r, evs) =>
        match Node.replicateRequest n' (.increment key inc) (P.session sid).db r with
        | (n'', r', evs') => (n'', r', evs ++ evs')
    res.1.members = P.members ∧ res.1.addr = P.addr ∧ res.1.pending = P.pending := by
  obtain ⟨d, hsel, hd⟩ := safeAccess_selected P sid key .increment dbP hacc
  have hname : dbP.name = d := hnames d dbP hd
  intro res
  have hres : res =
      (match Node.processObj recur P sid (.increment key inc) with
      | (n', r, evs) =>
        match Node.replicateRequest n' (.increment key inc) (P.session sid).db r with
        | (n'', r', evs') => (n'', r', evs ++ evs')) := rfl
  have hprim : P.isPrimary = true := by simp [Node.isPrimary, hrole]
  simp only [Node.processObj, hacc, Node.withAccess, hprim, if_true, Node.tick] at hres
  have hnm := (incValue_frame dbP key inc P.clock).1
  generalize hiv : dbP.incValue key inc P.clock = iv at hres hnm hok
  obtain ⟨db', resp, ps⟩ := iv
  simp only [] at hok
  subst hok
  simp only [] at hres hnm
  have hfound : (({ P with clock := P.clock + 1 } : Node).setDb db').db? d = some db' := by
    simp [Node.setDb, Node.db?, ← hname, ← hnm]
  simp only [Node.replicateRequest, Resp.isError, hsel, hfound, Option.isNone_some, Bool.false_eq_true, if_false,
    Node.replicateRequestCore, Node.replicateWeb, Node.tick, Option.getD_some] at hres
  rw [hres]
  exact ⟨by simp [Node.setDb], by simp [Node.setDb], by simp [Node.setDb]⟩

/-- **the burst of one accepted client `increment`, end to end** -/
theorem C14_increment_burst (recur : Node → Sid → Bytes → Node × Out) (P : Node) (m : Meta) (sid : Sid) (key : Bytes) (inc : Int) (dbP : Db)
    (hnP : NamesOk P) (hrole : P.role = .primary)
    (hacc : P.safeAccess sid key .increment = .granted dbP)
    (hd : 32 ∉ dbP.name) (hk : 32 ∉ key) (hdnl : 10 ∉ dbP.name) (hv : fitsI32 inc = true) (hclock : P.clock + 1 < u64Bound)
    (hfresh : AL.get? P.pending (P.clock + 1) = none)
    (hok : (dbP.incValue key inc P.clock).2.1 = .ok) :
    let res : Node × Out :=
      match Node.processObj recur P sid (.increment key inc) with
      | (n', r, evs) =>
        match Node.replicateRequest n' (.increment key inc) (P.session sid).db r with
        | (n'', r', evs') => (n'', r', evs ++ evs')
    let env := rpLine (P.clock + 1) (replicateIncMsg dbP.name key inc)
    replLines res.2.2 = [env] ∧
    (memberSends (res.1.replStep m env).2.2).map (·.1) =
        ((P.members.filter fun (name, mem) => mem.role = .secoundary && name != P.addr).filter (·.2.connected)).map (·.2.name) ∧
    (∀ p ∈ memberSends (res.1.replStep m env).2.2, p.2 = env) ∧
    (∀ (T : Node) (link : Sid) (dbT : Db) (fuel : Nat), (T.session link).auth = true → T.db? dbP.name = some dbT →
        ∀ e ∈ (Node.processRequestWith (Node.recurOf (fuel + 1)) T link env).2.2, e.Quiet) ∧
    (∀ (T : Node) (mT : Meta) (line : Bytes), T.role = .secoundary → memberSends (T.replStep mT line).2.2 = []) ∧
    (∀ (fuel : Node → Sid → Bytes → Node × Out) (n : Node) (s : Sid) (op : Nat) (server : Bytes),
        (n.processObj fuel s (.acknowledge op server)).2.2 = []) := by
  intro res env
  obtain ⟨hdbs, hlines, hr⟩ := (primary_inc_emits recur P sid key inc dbP hnP hrole hacc).1 hok
  obtain ⟨hmem, haddr, hpend⟩ := primary_inc_frame recur P sid key inc dbP hnP hrole hacc hok
  have hdbs' : res.1.dbs = AL.put P.dbs dbP.name (dbP.incValue key inc P.clock).1 := hdbs
  have hfound : res.1.db? dbP.name = some (dbP.incValue key inc P.clock).1 := by
    show AL.get? res.1.dbs dbP.name = _
    rw [hdbs']; simp
  have hstep := replStep_of_inc_envelope res.1 m (P.clock + 1) dbP.name key inc _ hfound hd hk hdnl hv hclock
  have hrole' : res.1.role = .primary := by
    have : res.1.role = P.role := hr
    rw [this]; exact hrole
  have hpend' : PendOk res.1 (P.clock + 1) (replicateIncMsg dbP.name key inc) := by
    intro p hp
    have : res.1.pending = P.pending := hpend
    rw [this, hfresh] at hp; cases hp
  refine ⟨hlines, ?_, ?_, ?_, ?_, ?_⟩
  · rw [hstep, C04_fanout_reaches_every_secondary res.1 _ _ hrole']
    have h1 : res.1.members = P.members := hmem
    have h2 : res.1.addr = P.addr := haddr
    rw [h1, h2]
  · rw [hstep]; exact loop_copies_are_the_envelope res.1 _ _ hpend'
  · intro T link dbT fuel hauth hdbT
    exact secondary_inc_envelope_is_quiet T link (P.clock + 1) dbP.name key inc dbT fuel hauth hdbT hd hk hdnl hv hclock
  · intro T mT line hT; exact C14_secondary_never_fans_out T mT line hT
  · intro fuel n s op server; exact C14_ack_is_silent fuel n s op server

end Nun
