import NunVerif.Props.C02
import NunVerif.Model.Exec
/-!
# C13 — arbiter databases never apply or lose a conflicting write silently (single node)

`Node.applyChange` is the model of `apply_change_to_db_try_fix_conflicts` (= `set_value` followed by
`try_resolve_conflict_response`), `Node.resolveConflict` of `resolve_conflit`.
-/
namespace Nun

theorem setValue_versionError_fields (db db' : Db) (c : Change) (k : Bytes) (ov v : Int) (old : Entry)
    (c' : Change) (st : Status) (ps : List Push)
    (h : db.setValue c = (db', .versionError k ov v old c' st, ps)) :
    db' = db ∧ k = c.key ∧ ov = old.version ∧ v = c.version ∧ c' = c ∧ st = updState old.state ∧
    db.getValue c.key = some old ∧ ps = [] := by
  unfold Db.setValue at h
  cases hg : db.getValue c.key with
  | none => simp [hg] at h
  | some o =>
    simp only [hg] at h
    split at h
    · simp only [Prod.mk.injEq, SetResp.versionError.injEq] at h
      obtain ⟨h1, ⟨h2, h3, h4, h5, h6, h7⟩, h8⟩ := h
      subst h5
      exact ⟨h1.symm, h2.symm, h3.symm, h4.symm, h6.symm, h7.symm, rfl, h8.symm⟩
    · simp at h

theorem setValue_absent (db : Db) (c : Change) (hg : db.getValue c.key = none) :
    db.setValue c = (db.setValueVersion c.key c.value (vinc c.version) .new 0 0 c.opId, .set c.key c.value,
      (db.setValueVersion c.key c.value (vinc c.version) .new 0 0 c.opId).notify c.key c.value (vinc c.version)) := by
  simp [Db.setValue, hg]

theorem conflictKey_ne_key (c : Change) : conflictKey c ≠ c.key := by
  intro h
  have := congrArg List.length h
  simp [conflictKey, Gen.conflictsKey] at this
  omega

/-- **Never silent.** On an arbiter database, a write that conflicts (the versioned check of
`set_value` fails) on a non-secure key ends in exactly one of two ways:
(a) no arbiter has ever registered: an error reply, the database unchanged, nobody notified;
(b) otherwise: the reply names the conflict key; the key keeps its value with the in-conflict
    version `-2`; the notice is stored under the (fresh) conflict key `$conflicts_<key>_<op>` and
    pushed to every registered arbiter. -/
theorem C13_never_silent (n : Node) (db : Db) (c : Change) (old : Entry) (k : Bytes) (ov v : Int)
    (c' : Change) (st : Status)
    (hst : db.strategy = .arbiter) (hns : Bytes.startsWith c.key Gen.securePrefix = false)
    (hfresh : db.getValue (conflictKey c) = none)
    (herr : db.setValue c = (db, .versionError k ov v old c' st, [])) :
    (db.hasArbiter = false ∧ (n.applyChange db c).2.1 = db ∧
        (n.applyChange db c).2.2.1 = .error b!"An conflitct happend and there is no arbiter client not connected" ∧
        (n.applyChange db c).2.2.2 = [])
    ∨ (db.hasArbiter = true ∧
        (n.applyChange db c).2.2.1 = .error (b!"$$conflitct unresolved " ++ conflictKey c) ∧
        let db1 := db.setValueVersion c.key old.value inConflict (updState old.state) old.vaddr old.kaddr old.opId
        let notice := noticeText db.name c c.key old old.version c.version (db1.listConflictKeys c.key)
        (∀ s ∈ (AL.get? db.watchers Gen.conflictsKey).getD [], Ev.push s notice ∈ (n.applyChange db c).2.2.2) ∧
        ((n.applyChange db c).2.1.getValue (conflictKey c)).map (·.value) = some notice ∧
        ((n.applyChange db c).2.1.getValue c.key).map (fun e => (e.value, e.version)) = some (old.value, inConflict)) := by
  obtain ⟨_, hk, hov, hv, hc', hstt, hg, _⟩ := setValue_versionError_fields db db c k ov v old c' st [] herr
  subst hk hov hv hc' hstt
  unfold Node.applyChange
  rw [herr]
  simp only [hst, hns]
  by_cases ha : db.hasArbiter = true
  · right
    refine ⟨ha, ?_⟩
    simp only [ha, Bool.not_true, Bool.false_eq_true, if_false]
    have hne : c'.key ≠ conflictKey c' := fun h => conflictKey_ne_key c' h.symm
    have hfresh1 : (db.setValueVersion c'.key old.value inConflict (updState old.state) old.vaddr old.kaddr old.opId).getValue (conflictKey c') = none := by
      simp only [Db.getValue, Db.setValueVersion]
      rw [AL.get?_put_other _ _ hne]; exact hfresh
    refine ⟨trivial, ?_, ?_, ?_⟩
    · intro s hs
      simp only [Db.arbiterPushes, Db.setValueVersion]
      cases hw : AL.get? db.watchers Gen.conflictsKey with
      | none => simp [hw] at hs
      | some ss =>
        simp only [hw, Option.getD] at hs
        simp only [List.mem_append, List.mem_map]
        exact Or.inl (Or.inl ⟨s, hs, rfl⟩)
    · rw [setValue_absent _ _ hfresh1]
      simp only [Db.getValue, Db.setValueVersion, AL.get?_put_same, Option.map]
    · rw [setValue_absent _ _ hfresh1]
      simp only [Db.getValue, Db.setValueVersion]
      rw [AL.get?_put_other _ _ (fun h => hne h.symm), AL.get?_put_same]
      rfl
  · left
    have ha' : db.hasArbiter = false := by simpa using ha
    simp [ha']

/-- the database after `resolve_conflit`: the conflict key marked `resolved <value>`, then the key
written with the resolution — at the in-conflict version while other conflicts of the key are open -/
theorem resolveConflict_db (n : Node) (db : Db) (c : Change) :
    (n.resolveConflict db c).2.1 =
      let reg : Change := { key := conflictKey c, value := Gen.resolvedPrefix ++ [32] ++ c.value, version := -1, opId := n.clock, resolve := false }
      let db1 := (db.setValue reg).1
      let pendingLeft := db1.hasUnresolved c.key
      (db1.setValue (if pendingLeft then { c with resolve := true, version := inConflict } else { c with resolve := true })).1 := by
  unfold Node.resolveConflict
  simp only [Node.tick]
  rfl

/-- **Resolution with nothing else pending**: when the resolved conflict was the last unresolved
one of the key, the key holds the resolution's value at a normal version (`echoed version + 1`)
and is writable again. -/
theorem C13_resolve_last (n : Node) (db : Db) (c : Change) (old : Entry)
    (hold : db.getValue c.key = some old) (hin : old.version = inConflict) (hv : 0 ≤ c.version)
    (hfresh : db.getValue (conflictKey c) = none)
    (hnone : let db1 := db.setValueVersion (conflictKey c) (Gen.resolvedPrefix ++ [32] ++ c.value) (vinc (-1)) .new 0 0 n.clock
      db1.hasUnresolved c.key = false) :
    ((n.resolveConflict db c).2.1.getValue c.key).map (fun e => (e.value, e.version)) = some (c.value, vinc c.version) := by
  have hne : conflictKey c ≠ c.key := conflictKey_ne_key c
  rw [resolveConflict_db]
  simp only []
  rw [setValue_absent db _ hfresh]
  simp only [] at hnone ⊢
  rw [hnone]
  simp only [Bool.false_eq_true, if_false]
  have hold1 : (db.setValueVersion (conflictKey c) (Gen.resolvedPrefix ++ [32] ++ c.value) (vinc (-1)) .new 0 0 n.clock).getValue c.key = some old := by
    simp only [Db.getValue, Db.setValueVersion]
    rw [AL.get?_put_other _ _ hne]; exact hold
  have hnv : ({ c with resolve := true } : Change).nextVersion old = vinc c.version := by
    have h1 : c.version ≠ -2 := by omega
    have hk : ({ c with resolve := true } : Change).keepInConflict = false := by
      simp [Change.keepInConflict, inConflict, Gen.inConflictVersion, h1]
    have ho : old.inConflict = true := by simp [Entry.inConflict, hin]
    simp [Change.nextVersion, hk, ho]
  rw [setValue_on_entry _ { c with resolve := true } old hold1, hnv]
  have hgt : ¬ (vinc c.version ≤ old.version ∧ ¬ ({ c with resolve := true } : Change).keepInConflict = true) := by
    intro hh; have := le_vinc c.version; rw [hin] at hh; simp [inConflict, Gen.inConflictVersion] at hh; omega
  rw [if_neg hgt]
  simp only [Db.getValue, Db.setValueVersion, AL.get?_put_same, Option.map]

/-- **Resolution while other conflicts of the key are open**: the key takes the resolution's value
but stays at the in-conflict version, so every later write still queues behind the open ones. -/
theorem C13_resolve_pending (n : Node) (db : Db) (c : Change) (old : Entry)
    (hold : db.getValue c.key = some old)
    (hfresh : db.getValue (conflictKey c) = none)
    (hsome : let db1 := db.setValueVersion (conflictKey c) (Gen.resolvedPrefix ++ [32] ++ c.value) (vinc (-1)) .new 0 0 n.clock
      db1.hasUnresolved c.key = true) :
    ((n.resolveConflict db c).2.1.getValue c.key).map (fun e => (e.value, e.version)) = some (c.value, inConflict) := by
  have hne : conflictKey c ≠ c.key := conflictKey_ne_key c
  rw [resolveConflict_db]
  simp only []
  rw [setValue_absent db _ hfresh]
  simp only [] at hsome ⊢
  rw [hsome]
  simp only [if_true]
  have hold1 : (db.setValueVersion (conflictKey c) (Gen.resolvedPrefix ++ [32] ++ c.value) (vinc (-1)) .new 0 0 n.clock).getValue c.key = some old := by
    simp only [Db.getValue, Db.setValueVersion]
    rw [AL.get?_put_other _ _ hne]; exact hold
  have hk : ({ c with resolve := true, version := inConflict } : Change).keepInConflict = true := by
    simp [Change.keepInConflict]
  have hnv : ({ c with resolve := true, version := inConflict } : Change).nextVersion old = inConflict := by
    simp [Change.nextVersion, hk]
  rw [setValue_on_entry _ { c with resolve := true, version := inConflict } old hold1, hnv]
  rw [if_neg (fun hh => hh.2 hk)]
  simp only [Db.getValue, Db.setValueVersion, AL.get?_put_same, Option.map]

end Nun
