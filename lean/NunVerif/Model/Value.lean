import NunVerif.Model.Bytes
import NunVerif.Model.Map
import NunVerif.Gen.Lits
/-
  Values, versions, tombstones and the `Database` methods of `bo.rs` / `db_ops.rs`
  (`get_value`, `set_value`, `set_value_version`, `inc_value`, `remove_value`, `list_keys`,
  `watch_key`, `unwatch_key`, `unwatch_all`, `notify_watchers`).
-/
namespace Nun

inductive Status | ok | deleted | updated | new
deriving DecidableEq, Repr, Inhabited

inductive Strategy | none | newer | arbiter
deriving DecidableEq, Repr, Inhabited

structure Entry where
  value : Bytes
  version : Int
  opId : Nat
  state : Status
  vaddr : Nat
  kaddr : Nat
deriving DecidableEq, Repr, Inhabited

structure Change where
  key : Bytes
  value : Bytes
  version : Int
  opId : Nat
  resolve : Bool
deriving DecidableEq, Repr

/-- `IN_CONFLICT_RESOLUTION_KEY_VERSION` -/
def inConflict : Int := Gen.inConflictVersion

def Entry.inConflict (e : Entry) : Bool := e.version = Nun.inConflict
def Change.keepInConflict (c : Change) : Bool := c.version = Nun.inConflict

/-- `i32::saturating_add(1)` on a version -/
def vinc (v : Int) : Int := if v < 2147483647 then v + 1 else v

/-- `i32::saturating_add(n)` for a non-negative `n` -/
def vadd (v : Int) (n : Nat) : Int := if v + n < 2147483647 then v + n else max v 2147483647

/-- `Change::next_version` -/
def Change.nextVersion (c : Change) (old : Entry) : Int :=
  if c.keepInConflict then c.version
  else if c.resolve then vinc (if old.inConflict then c.version else old.version)
  else if old.inConflict then old.version
  else if c.version = -1 then vinc old.version
  else vinc c.version

/-- `Value::get_update_value_sate` -/
def updState (s : Status) : Status := if s = .new then .new else .updated

abbrev KV := List (Bytes × Entry)
abbrev Sid := Nat

/-- a line pushed on a client channel -/
structure Push where
  sid : Sid
  line : Bytes
deriving DecidableEq, Repr

structure Db where
  name : Bytes
  id : Nat
  strategy : Strategy
  map : KV
  watchers : List (Bytes × List Sid)
  conns : Nat
deriving Repr, Inhabited

def Db.new (name : Bytes) (id : Nat) (s : Strategy) : Db :=
  { name, id, strategy := s, map := [], watchers := [], conns := 0 }

def Db.getValue (db : Db) (k : Bytes) : Option Entry := AL.get? db.map k

def Db.setValueVersion (db : Db) (k v : Bytes) (ver : Int) (st : Status) (va ka op : Nat) : Db :=
  { db with map := AL.put db.map k { value := v, version := ver, opId := op, state := st, vaddr := va, kaddr := ka } }

/-- `changed` + `changed-version` pair for every registered sender of `k`, in registration order -/
def Db.notify (db : Db) (k v : Bytes) (ver : Int) : List Push :=
  match AL.get? db.watchers k with
  | some ss =>
    ss.flatMap fun s =>
      [ ⟨s, Gen.changedPrefix ++ k ++ [32] ++ v ++ [10]⟩,
        ⟨s, Gen.changedVersionPrefix ++ k ++ [32] ++ Bytes.ofInt ver ++ [32] ++ v ++ [10]⟩ ]
  | none => []

inductive SetResp
  | set (key value : Bytes)
  | versionError (key : Bytes) (oldVersion version : Int) (old : Entry) (change : Change) (state : Status)
deriving Repr, DecidableEq

/-- `Database::set_value` -/
def Db.setValue (db : Db) (c : Change) : Db × SetResp × List Push :=
  match db.getValue c.key with
  | some old =>
    let nv := c.nextVersion old
    if nv ≤ old.version ∧ ¬ c.keepInConflict then
      (db, .versionError c.key old.version c.version old c (updState old.state), [])
    else
      let db' := db.setValueVersion c.key c.value nv (updState old.state) old.vaddr old.kaddr c.opId
      (db', .set c.key c.value, db'.notify c.key c.value nv)
  | none =>
    let nv := vinc c.version
    let db' := db.setValueVersion c.key c.value nv .new 0 0 c.opId
    (db', .set c.key c.value, db'.notify c.key c.value nv)

/-- `get_key_value_new`: value and version, `<Empty>` / 1 when there is no entry -/
def Db.getKV (db : Db) (k : Bytes) : Bytes × Int :=
  match db.getValue k with
  | some e => (e.value, e.version)
  | none => (Gen.emptyValue, Gen.emptyVersion)

/-- `get_function_by_pattern` applied -/
def patternMatch (pattern key : Bytes) : Bool :=
  if Bytes.endsWith pattern [42] then Bytes.startsWith key (Bytes.dropByte 42 pattern)
  else if Bytes.startsWith pattern [42] then Bytes.endsWith key (Bytes.dropByte 42 pattern)
  else Bytes.contains key pattern

/-- `Database::list_keys` -/
def Db.listKeys (db : Db) (pattern : Bytes) (system : Bool) : List Bytes :=
  Bytes.sort <| (db.map.filter fun (k, e) =>
    (system || !Bytes.startsWith k Gen.securePrefix) && e.state != .deleted && patternMatch pattern k).map (·.1)

inductive IncResp | ok | notNumeric | overflow | versionCap
deriving DecidableEq, Repr

/-- the text `inc_value` parses: a missing or removed key counts as `0` -/
def Db.incText (db : Db) (k : Bytes) : Bytes :=
  match db.getValue k with
  | some e => if e.state = .deleted then Gen.zero else e.value
  | none => Gen.zero

/-- the entry `inc_value` stores: version + 1 and the disk position of an existing entry -/
def Db.incStore (db : Db) (k next : Bytes) (op : Nat) : Db :=
  match db.getValue k with
  | some e => db.setValueVersion k next (vinc e.version) (updState e.state) e.vaddr e.kaddr op
  | none => db.setValueVersion k next 1 .new 0 0 op

/-- the key has an entry whose version is `i32::MAX` -/
def Db.versionCapped (db : Db) (k : Bytes) : Bool :=
  match db.getValue k with
  | some e => e.version = 2147483647
  | none => false

/-- `Database::inc_value` -/
def Db.incValue (db : Db) (k : Bytes) (inc : Int) (op : Nat) : Db × IncResp × List Push :=
  match Bytes.parseI32 (db.incText k) with
  | some cur =>
    if Bytes.fitsI32 (cur + inc) then
      if db.versionCapped k then (db, .versionCap, [])
      else
        let next := Bytes.ofInt (cur + inc)
        let db' := db.incStore k next op
        (db', .ok, db'.notify k next (-1))
    else (db, .overflow, [])
  | none => (db, .notNumeric, [])

/-- `removed` line for every registered sender of `k` -/
def Db.notifyRemoved (db : Db) (k : Bytes) : List Push :=
  match AL.get? db.watchers k with
  | some ss => ss.map fun s => ⟨s, Gen.removedPrefix ++ k ++ [10]⟩
  | none => []

/-- `Database::remove_value`; `none` = refused (`$$token`) -/
def Db.removeValue (db : Db) (k : Bytes) : Option (Db × List Push) :=
  if k = Gen.tokenKey then none
  else
    let db' := match db.getValue k with
      | some e =>
        if e.state = .new then { db with map := AL.erase db.map k }
        else db.setValueVersion k Gen.tombstoneValue (vinc e.version) .deleted e.vaddr e.kaddr e.opId
      | none => db
    some (db', db'.notifyRemoved k)

def Db.watch (db : Db) (k : Bytes) (s : Sid) : Db :=
  if s ∈ (AL.get? db.watchers k).getD [] then db   -- already registered: the same vector is stored back
  else { db with watchers := AL.put db.watchers k ((AL.get? db.watchers k).getD [] ++ [s]) }

def Db.unwatch (db : Db) (k : Bytes) (s : Sid) : Db :=
  let cur := (AL.get? db.watchers k).getD []
  { db with watchers := AL.put db.watchers k (cur.filter (· != s)) }

def Db.unwatchAll (db : Db) (s : Sid) : Db :=
  (AL.keys db.watchers).foldl (fun d k => d.unwatch k s) db

end Nun
