import Lean.Elab.Term
/-! `b!"text"` elaborates to the explicit list of the UTF-8 byte values of `text`
(a `List Nat` literal the kernel can evaluate; string literals themselves do not reduce). -/
namespace Nun
open Lean Elab Term in
elab:max "b!" s:str : term => do
  let bytes : List Nat := s.getString.toUTF8.toList.map (·.toNat)
  return toExpr bytes
end Nun
