import NunVerif.Model.S3
/-
  The `s3_patition` storage strategy (`storage/s3_partition.rs`): a database is spread over
  `NUN_S3_NUMBER_OF_PARTITIONS` objects `<prefix>/<db>/<partition>.nun`; a key lives in partition
  `hash(key) % N` where `hash` is Rust's `DefaultHasher` (SipHash-1-3 with the all-zero key over the
  key's bytes followed by the byte 0xFF that `str::hash` appends).  A snapshot finds the partitions
  that hold a key to update, and rewrites each of them whole from ALL keys of the map that fall in
  it; start-up lists the objects below `<prefix>/<db>/`, GETs every one and inserts every record.

  `siphash13` is executable (the compiled driver places keys exactly as the real code does — the
  object names and bytes are compared with the S3 stub's store); every theorem about the strategy
  (`Props/C18Part.lean`) is stated for an ARBITRARY placement function `h : Bytes → Nat`, so nothing
  proved depends on the hash.
-/
namespace Nun

/-! ### SipHash-1-3, key (0, 0) — `std::hash::DefaultHasher::new()` -/

def rotl64 (x : UInt64) (n : UInt64) : UInt64 := (x <<< n) ||| (x >>> (64 - n))

structure Sip where
  v0 : UInt64
  v1 : UInt64
  v2 : UInt64
  v3 : UInt64

def Sip.round (s : Sip) : Sip :=
  let v0 := s.v0 + s.v1
  let v1 := rotl64 s.v1 13
  let v1 := v1 ^^^ v0
  let v0 := rotl64 v0 32
  let v2 := s.v2 + s.v3
  let v3 := rotl64 s.v3 16
  let v3 := v3 ^^^ v2
  let v0 := v0 + v3
  let v3 := rotl64 v3 21
  let v3 := v3 ^^^ v0
  let v2 := v2 + v1
  let v1 := rotl64 v1 17
  let v1 := v1 ^^^ v2
  let v2 := rotl64 v2 32
  ⟨v0, v1, v2, v3⟩

/-- little-endian word of up to eight bytes -/
def wordLE (bs : Bytes) : UInt64 := bs.foldr (fun b acc => acc * 256 + UInt64.ofNat b) 0

/-- the compression of every full 8-byte block; returns the state and the tail (fewer than 8 bytes) -/
def sipBlocks : Nat → Bytes → Sip → Sip × Bytes
  | 0, bs, s => (s, bs)
  | f + 1, bs, s =>
    if bs.length < 8 then (s, bs)
    else
      let m := wordLE (bs.take 8)
      let s := ({ s with v3 := s.v3 ^^^ m } : Sip).round
      sipBlocks f (bs.drop 8) { s with v0 := s.v0 ^^^ m }

def siphash13 (data : Bytes) : UInt64 :=
  let s0 : Sip := ⟨0x736f6d6570736575, 0x646f72616e646f6d, 0x6c7967656e657261, 0x7465646279746573⟩
  let (s, rest) := sipBlocks data.length data s0
  let b : UInt64 := (UInt64.ofNat (data.length % 256) <<< 56) ||| wordLE rest
  let s := ({ s with v3 := s.v3 ^^^ b } : Sip).round
  let s : Sip := { s with v0 := s.v0 ^^^ b }
  let s := ({ s with v2 := s.v2 ^^^ 0xff } : Sip).round.round.round
  s.v0 ^^^ s.v1 ^^^ s.v2 ^^^ s.v3

/-- `S3PartitionStorage::hash(key)`: `key.hash(&mut DefaultHasher::new())` writes the bytes and 0xFF -/
def rustStrHash (k : Bytes) : Nat := (siphash13 (k ++ [255])).toNat

/-- `get_patirion_from_key` for `NUN_S3_NUMBER_OF_PARTITIONS = n` -/
def partitionOf (n : Nat) (k : Bytes) : Nat := rustStrHash k % n

/-! ### the writer -/

/-- one record of a partition object: key length (8), key, value length (8), value, state (4: removed
or clean), version (4) -/
def s3pRec (k : Bytes) (e : Entry) : Bytes :=
  le64 k.length ++ k ++ le64 e.value.length ++ e.value ++ le32i (if e.state = .deleted then 1 else 0) ++ le32i e.version

def s3pObjKey (db : Bytes) (p : Nat) : Bytes := s3Prefix ++ db ++ [47] ++ Bytes.ofNat p ++ b!".nun"

structure S3PSt where
  db : Db
  buf : Bytes := []
  clock : Nat

/-- one turn of `for (key, value) in keys_in_patition` -/
def s3pSnapKey (p : Nat) (s : S3PSt) (k : Bytes) (e : Entry) : S3PSt :=
  { db := if e.state = .deleted then s.db else s.db.setValueVersion k e.value e.version .ok p p s.clock,
    buf := s.buf ++ s3pRec k e,
    clock := if e.state = .deleted then s.clock else s.clock + 1 }

/-- the entries of the map in the iteration order observed on the implementation -/
def Db.inOrder (db : Db) (order : List Bytes) : List (Bytes × Entry) := db.map.foldr (insertByIx order) []

/-- the closure run for one partition (the upload succeeds) -/
def s3pSnapPartition (h : Bytes → Nat) (order : List Bytes) (st : Db × Objs × Nat) (p : Nat) : Db × Objs × Nat :=
  let inPart := (st.1.inOrder order).filter fun x => h x.1 = p
  let s := inPart.foldl (fun s x => s3pSnapKey p s x.1 x.2) ({ db := st.1, clock := st.2.2 } : S3PSt)
  (s.db, AL.put st.2.1 (s3pObjKey st.1.name p) s.buf, s.clock)

def insertNat (x : Nat) : List Nat → List Nat
  | [] => [x]
  | y :: ys => if x < y then x :: y :: ys else if x = y then y :: ys else y :: insertNat x ys

/-- `partitions_to_update`: sorted, without repetitions -/
def dirtyPartitions (h : Bytes → Nat) (db : Db) (reclaim : Bool) : List Nat :=
  (db.map.filter fun (_, e) => e.state != .ok || reclaim).foldr (fun (k, _) acc => insertNat (h k) acc) []

/-- `S3PartitionStorage::storage_data_on_cloud` when every upload succeeds -/
def s3pSnapshot (h : Bytes → Nat) (db : Db) (objs : Objs) (reclaim : Bool) (order : List Bytes) (clock : Nat) : Db × Objs × Nat :=
  (dirtyPartitions h db reclaim).foldl (s3pSnapPartition h order) (db, objs, clock)

/-! ### the reader -/

/-- `cursor.read(&mut [0; n])`: what is there, padded with the buffer's zeros; the new position -/
def rdPad (obj : Bytes) (pos n : Nat) : Bytes × Nat :=
  let got := (obj.drop pos).take n
  (got ++ List.replicate (n - got.length) 0, pos + got.length)

def statusOfCode (c : Int) : Status :=
  if c = 1 then .deleted else if c = 2 then .updated else if c = 3 then .new else .ok

/-- the `while let Ok(read) = file_cursor.read(&mut key_length_buffer)` loop over one partition object;
`none` = a panic (`from_utf8(..).unwrap()`, an allocation the size of a garbage length) -/
def s3pLoadLoop (obj : Bytes) (part : Nat) : Nat → Nat → KV → Nat → Option (KV × Nat)
  | 0, _, map, clock => some (map, clock)
  | fuel + 1, pos, map, clock =>
    let lenB := (obj.drop pos).take 8
    if lenB.length = 0 then some (map, clock)
    else
      let klen := ofLE (lenB ++ List.replicate (8 - lenB.length) 0)
      if klen ≥ allocBound then none else
      let (kbuf, pos) := rdPad obj (pos + lenB.length) klen
      if !validUtf8 kbuf then none else
      let (vlenB, pos) := rdPad obj pos 8
      let vlen := ofLE vlenB
      if vlen ≥ allocBound then none else
      let (vbuf, pos) := rdPad obj pos vlen
      if !validUtf8 vbuf then none else
      let (stB, pos) := rdPad obj pos 4
      let (verB, pos) := rdPad obj pos 4
      let map := AL.put map kbuf { value := vbuf, version := i32OfLE verB, opId := clock, state := statusOfCode (i32OfLE stB),
                                   vaddr := part, kaddr := 0 }
      s3pLoadLoop obj part fuel pos map (clock + 1)

/-- the text between the last `/` and the first `.` after it -/
def partNameOf (objKey : Bytes) : Bytes :=
  let last := ((Bytes.splitAll 47 objKey).getLast?).getD []
  ((Bytes.splitAll 46 last).head?).getD []

/-- `get_patirion_list_form_s3`: the objects whose key starts with `<prefix>/<db>/`, in listing order -/
def s3pPartitionList (objs : Objs) (name : Bytes) : List Bytes :=
  objs.filterMap fun (k, _) => if Bytes.startsWith k (s3Prefix ++ name ++ [47]) then some (partNameOf k) else none

/-- one partition of `read_data_from_cloud` (a failed GET is retried and then reported: the start-up panics) -/
def s3pLoadStep (objs : Objs) (name : Bytes) (acc : Option (KV × Nat)) (pn : Bytes) : Option (KV × Nat) :=
  match acc with
  | none => none
  | some (map, clock) =>
    match AL.get? objs (s3Prefix ++ name ++ [47] ++ pn ++ b!".nun"), Bytes.parseU64 pn with
    | some obj, some part => s3pLoadLoop obj part (obj.length + 1) 0 map clock
    | _, _ => none

/-- `read_data_from_cloud`: `none` = the start-up panics -/
def s3pLoadDb (objs : Objs) (name : Bytes) (clock : Nat) : Option (Db × Nat) :=
  match (s3pPartitionList objs name).foldl (s3pLoadStep objs name) (some ([], clock)) with
  | some (map, clock) => some ({ name, id := 1, strategy := .arbiter, map, watchers := [], conns := 0 }, clock)
  | none => none

def dedupAdj : List Bytes → List Bytes
  | [] => []
  | [x] => [x]
  | x :: y :: r => if x = y then dedupAdj (y :: r) else x :: dedupAdj (y :: r)

/-- `load_all_dbs_from_cloud`: the database names a start-up finds (objects with `.nun` in their key,
the prefix removed, the last path segment dropped, adjacent repetitions removed) -/
def s3pDbNames (objs : Objs) : List Bytes :=
  dedupAdj (objs.filterMap fun (k, _) =>
    if Bytes.startsWith k s3Prefix && Bytes.contains k b!".nun" then
      let segs := Bytes.splitAll 47 (k.drop s3Prefix.length)
      some (Bytes.join [47] segs.dropLast)
    else none)

end Nun
