/-
  Association lists standing in for Rust `HashMap`s. Iteration order of a `HashMap` is never
  relied on by the model: wherever the code's output depends on it the order is an explicit
  input, and dumps are sorted.
-/
namespace Nun

namespace AL
variable {α : Type} {β : Type} [DecidableEq α]

def get? : List (α × β) → α → Option β
  | [], _ => none
  | (k', v) :: t, k => if k' = k then some v else get? t k

def contains (m : List (α × β)) (k : α) : Bool := (get? m k).isSome

/-- `HashMap::insert`: replace in place or append -/
def put : List (α × β) → α → β → List (α × β)
  | [], k, v => [(k, v)]
  | (k', v') :: t, k, v => if k' = k then (k, v) :: t else (k', v') :: put t k v

/-- `HashMap::remove` -/
def erase : List (α × β) → α → List (α × β)
  | [], _ => []
  | (k', v') :: t, k => if k' = k then erase t k else (k', v') :: erase t k

def keys (m : List (α × β)) : List α := m.map (·.1)

end AL
end Nun
