import NunVerif.Model.Bytes
import NunVerif.Model.Map
import NunVerif.Model.Lit
/-
  Pending-operation accounting: `Databases::register_pending_opp`,
  `Databases::acknowledge_pending_opp`, `ReplicationMessage::{replicated, ack,
  is_full_acknowledged}` (replication_ops.rs). Both public methods hold the
  `pending_opps` write lock throughout, so each is one atomic step.
-/
namespace Nun

structure PendingOp where
  opId : Nat
  message : Bytes
  ackCount : Nat
  replicateCount : Nat
  replications : List (Bytes × Bool)
deriving Repr, Inhabited, DecidableEq

abbrev PMap := List (Nat × PendingOp)

/-- `ReplicationMessage::new` -/
def PendingOp.fresh (op : Nat) (msg : Bytes) : PendingOp :=
  { opId := op, message := msg, ackCount := 0, replicateCount := 0, replications := [] }

/-- `ReplicationMessage::replicated` -/
def PendingOp.replicated (p : PendingOp) (server : Bytes) : PendingOp :=
  { p with replicateCount := p.replicateCount + 1, replications := AL.put p.replications server false }

/-- `ReplicationMessage::ack`: insert `(server, true)` first, then look at the previous value -/
def PendingOp.ack (p : PendingOp) (server : Bytes) : PendingOp × Bool :=
  let p1 := { p with replications := AL.put p.replications server true }
  match AL.get? p.replications server with
  | some false => ({ p1 with ackCount := p1.ackCount + 1 }, true)
  | _ => (p1, false)

def PendingOp.fullyAcked (p : PendingOp) : Bool := p.replicateCount = p.ackCount

def PendingOp.wire (p : PendingOp) : Bytes := b!"rp " ++ Bytes.ofNat p.opId ++ [32] ++ p.message

/-- `register_pending_opp` -/
def PMap.register (m : PMap) (op : Nat) (msg server : Bytes) : PMap × Bytes :=
  let p := ((AL.get? m op).getD (PendingOp.fresh op msg)).replicated server
  (AL.put m op p, p.wire)

/-- `acknowledge_pending_opp` -/
def PMap.ack (m : PMap) (op : Nat) (server : Bytes) : PMap × Bool :=
  match AL.get? m op with
  | none => (m, false)
  | some p =>
    match p.ack server with
    | (p', true) => if p'.fullyAcked then (AL.erase m op, true) else (AL.put m op p', true)
    | (p', false) => (AL.put m op p', false)

end Nun
