import NunVerif.Model.Map
/-
  The operation log (`disk_ops.rs`): fixed-size records `(timestamp, key id, db id, kind)`,
  the hand-written bisection + forward scan of `read_operations_since_from_file` transcribed
  iteration by iteration (record-index form: `seek_point / 25`, `min / 25`, `max / 25`), the
  multi-file merge of `read_operations_since`, `Oplog::last_op_time`, rotation on append and the
  pruning of rotated files. Files hold whole records.
-/
namespace Nun

structure OpRec where
  t : Nat
  k : Nat
  d : Nat
  o : Nat
deriving DecidableEq, Repr, Inhabited

abbrev OpFile := List OpRec

def OpFile.timeAt (f : OpFile) (i : Nat) : Option Nat := (f[i]?).map (·.t)

/-- bisection state; `cur` is the 8-byte time buffer, unchanged when a read hits end of file -/
structure BisSt where
  lo : Nat
  hi : Nat
  s : Nat
  cur : Nat
deriving Repr, DecidableEq

inductive BisRes
  | found (start : Nat) (cur : Nat)   -- forward scan starts at record `start`; buffer holds `cur`
  | notFound                          -- loop left through the short-read `break`
  | underflow                         -- a `u64` subtraction would panic
  | outOfFuel
deriving Repr, DecidableEq

/-- one iteration of the `while let Ok(i) = f.read(&mut time_buffer)` loop -/
def bisStep (f : OpFile) (since : Nat) (st : BisSt) : Sum BisRes BisSt :=
  let full := st.s < f.length
  let cur := (f.timeAt st.s).getD st.cur
  if st.hi < st.lo then .inl .underflow else
  let possible := st.hi - st.lo
  if cur = since ∨ (possible ≤ 1 ∧ since < cur) ∨ (possible = 1 ∧ st.s = 1) then .inl (.found st.s cur)
  else if cur < since then
    -- search bigger: `min = seek_point`, step forward by half of what is left (at least one record)
    let st1 : BisSt := { lo := st.s, hi := st.hi, s := st.s + Nat.max ((Nat.max st.hi st.s - st.s) / 2) 1, cur := cur }
    if full then .inr st1 else .inl .notFound
  else
    -- search smaller: `max = seek_point`, step back by half of the way to `min` (at least one record)
    let nrec := Nat.max ((st.s - st.lo) / 2) 1
    if st.s < st.lo then .inl .underflow
    else if st.s < nrec then .inl .underflow
    else
      let st2 : BisSt := { lo := st.lo, hi := st.s, s := st.s - nrec, cur := cur }
      if full then .inr st2 else .inl .notFound

def bisRun (f : OpFile) (since : Nat) : Nat → BisSt → BisRes
  | 0, _ => .outOfFuel
  | fuel + 1, st =>
    match bisStep f since st with
    | .inl r => r
    | .inr st' => bisRun f since fuel st'

def bisect (f : OpFile) (since : Nat) : BisRes :=
  bisRun f since (2 * f.length + 4) { lo := 0, hi := f.length, s := f.length / 2, cur := 0 }

/-- the rewind over records carrying the same id: while the previous record's time (zeros past
the end of the file) equals `since`, step back -/
def rewind (f : OpFile) (since : Nat) : Nat → Nat → Nat
  | 0, s => s
  | fuel + 1, s =>
    if s ≥ 1 ∧ (f.timeAt (s - 1)).getD 0 = since then rewind f since fuel (s - 1) else s

abbrev OpMap := List (String × OpRec × Nat)   -- "<db>_<key>" ↦ (record with the timestamp reported, position)

def opKey (r : OpRec) : Nat × Nat := (r.d, r.k)

abbrev OpResult := List ((Nat × Nat) × (Nat × Nat × Nat))   -- (db,key) ↦ (kind, timestamp, position)

/-- the forward scan: the record at `start` is reported with the buffered time `cur`, the
following ones with their own -/
def scanFrom (f : OpFile) (start : Nat) (cur : Nat) (acc : OpResult) : OpResult :=
  let recs := f.drop start
  (recs.zipIdx.foldl (fun (st : OpResult × Nat) (p : OpRec × Nat) =>
    let (r, i) := p
    (AL.put st.1 (opKey r) ((if r.o ≤ 3 then r.o else 0), st.2, i + 1), match f.timeAt (start + i + 1) with | some t => t | none => st.2))
    (acc, cur)).1

/-- `read_operations_since_from_file` -/
def readFile (f : OpFile) (since : Nat) (acc : OpResult) : OpResult :=
  match bisect f since with
  | .found s cur =>
    let s' := if cur = since then rewind f since (s + 1) s else s
    scanFrom f s' cur acc
  | _ => acc

/-- `read_operations_since`: rotated files oldest first, the current file last (later records
overwrite earlier ones). `rot` is newest first. -/
def readAll (cur : OpFile) (rot : List OpFile) (since : Nat) : OpResult :=
  readFile cur since (rot.reverse.foldl (fun acc f => readFile f since acc) [])

/-- `Oplog::last_op_time` -/
def lastOpTime (cur : OpFile) (rot : List OpFile) : Nat :=
  match cur.getLast? with
  | some r => r.t
  | none =>
    match rot.head? with
    | some f => (match f.getLast? with | some r => r.t | none => 0)
    | none => 0

/-- bytes per record and per-file limit (`NUN_MAX_OP_LOG_SIZE / 10`) -/
def opRecSize : Nat := 25

structure OplogFs where
  cur : OpFile := []
  rot : List OpFile := []   -- newest first
deriving Repr, Inhabited

/-- `Oplog::try_write_op_log` on a stream opened by `get_log_file_append_mode`: the stream is
re-opened (rotating a full file) only after a write that crossed the limit, and the record is then
written again into the new file -/
def OplogFs.append (fs : OplogFs) (single : Nat) (r : OpRec) (reopen : Bool) : OplogFs :=
  -- get_log_file_append_mode at (re)open: rotate when the current file has reached the limit
  let fs : OplogFs := if reopen && fs.cur.length * opRecSize ≥ single then { cur := [], rot := fs.cur :: fs.rot } else fs
  let fs1 : OplogFs := { fs with cur := fs.cur ++ [r] }
  if fs1.cur.length * opRecSize > single then
    let fs2 : OplogFs := if fs1.cur.length * opRecSize ≥ single then { cur := [], rot := fs1.cur :: fs1.rot } else fs1
    { fs2 with cur := fs2.cur ++ [r] }
  else fs1

/-- `remove_old_db_files`: keep the 9 newest rotated files once there are 10 or more -/
def OplogFs.declutter (fs : OplogFs) : OplogFs :=
  if fs.rot.length < 10 then fs else { fs with rot := fs.rot.take 9 }

end Nun
