import NunVerif.Model.Cluster
/-
  `start_election` as a resumable computation.  The real function blocks its caller in two wait
  loops (2 ms per turn, bounded by NUN_ELECTION_TIMEOUT) and a final pause; between two turns the
  rest of the node keeps running (the replication loop registers the candidacy, acknowledgements
  arrive, other commands change the role).  One `resume` is one turn of the loop it is parked in.
-/
namespace Nun

/-- where an election is parked -/
inductive ECo
  | waitReg (id : Nat) (t : Nat)     -- "Waiting for opp to be registered"
  | waitAck (id : Nat) (t : Nat)     -- "Wait for the opp to be acknowledged by all nodes"
  | final                            -- acknowledgements received, the 100 ms pause
  | done
deriving Repr, DecidableEq

def ECo.site : ECo → String
  | .waitReg .. => "start_election:wait-registered"
  | .waitAck .. => "start_election:wait-acks"
  | .final => "start_election:final-wait"
  | .done => "-"

def Node.pendingOp (n : Node) (id : Nat) : Option PendingOp := AL.get? n.pending id

/-- entering the second loop (or passing it) -/
def Node.electionEnterAcks (n : Node) (id : Nat) : Node × List Ev × ECo :=
  match n.pendingOp id with
  | some p =>
    if !p.fullyAcked then
      if !n.isEligible then (n, [], .done) else (n, [], .waitAck id 0)
    else (n, [], .final)
  | none => (n, [], .final)

/-- `start_election` up to its first wait -/
def Node.electionBegin (n : Node) (timeout : Nat) : Node × List Ev × ECo :=
  if n.members.length ≤ 1 then
    let (n, evs) := n.electionWin
    (n, evs, .done)
  else
    let (n, id) := n.tick
    let ev : Ev := .repl (b!"rp " ++ Bytes.ofNat id ++ [32] ++ b!"election candidate " ++ Bytes.ofNat n.pid ++ [32] ++ n.addr)
    match n.pendingOp id with
    | none =>
      if 0 < timeout then (n, [ev], .waitReg id 0)
      else
        let (n, evs) := n.electionWin
        (n, ev :: evs, .done)
    | some _ =>
      let (n, evs, co) := n.electionEnterAcks id
      (n, ev :: evs, co)

/-- one turn of the loop the election is parked in -/
def Node.electionResume (n : Node) (timeout : Nat) : ECo → Node × List Ev × ECo
  | .waitReg id t =>
    let t := t + 2
    match n.pendingOp id with
    | none =>
      if t < timeout then (n, [], .waitReg id t)
      else
        -- never registered: "No opp registered, will set as primary"
        let (n, evs) := n.electionWin
        (n, evs, .done)
    | some _ => n.electionEnterAcks id
  | .waitAck id t =>
    let t := t + 2
    if t > timeout then
      let (n, evs) := n.electionWin
      (n, evs, .done)
    else
      match n.pendingOp id with
      | some p =>
        if !p.fullyAcked then
          if !n.isEligible then (n, [], .done) else (n, [], .waitAck id t)
        else (n, [], .final)
      | none => (n, [], .final)
  | .final =>
    if n.isEligible then
      let (n, evs) := n.electionWin
      (n, evs, .done)
    else (n, [], .done)
  | .done => (n, [], .done)

end Nun
