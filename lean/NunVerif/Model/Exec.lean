import NunVerif.Model.Parse
import NunVerif.Model.Pending
import NunVerif.Model.Disk
/-
  `process_request` = `Request::parse` → `process_request_obj` → `replicate_request`
  (process_request.rs, security.rs, db_ops.rs, consensus_ops.rs, election_ops.rs,
  replication_ops.rs::replicate_request), for one node.
-/
namespace Nun

inductive Role | startingUp | primary | secoundary
deriving DecidableEq, Repr, Inhabited

def Role.toBytes : Role → Bytes
  | .startingUp => b!"StartingUp" | .primary => b!"Primary" | .secoundary => b!"Secoundary"

structure Session where
  auth : Bool := false
  db : Option Bytes := none
  user : Option Bytes := none
  member : Option (Bytes × Role) := none
deriving Repr, Inhabited, DecidableEq

structure Member where
  name : Bytes
  role : Role
  connected : Bool
deriving Repr, Inhabited, DecidableEq

/-- what a command emits besides its reply -/
inductive Ev
  | push (sid : Sid) (line : Bytes)          -- client channel
  | repl (line : Bytes)                      -- `replication_sender` (`rp <id> <msg>`)
  | sup (line : Bytes)                       -- `replication_supervisor_sender`
  | toMember (name : Bytes) (line : Bytes)   -- a cluster member's link
deriving Repr, DecidableEq

structure Node where
  user : Bytes
  pwd : Bytes
  addr : Bytes
  pid : Nat
  role : Role
  dbs : List (Bytes × Db)
  idName : List (Nat × Bytes)
  sessions : List (Sid × Session)
  clock : Nat
  members : List (Bytes × Member)
  pending : PMap
  toSnapshot : List (Bytes × Bool)
  keysMap : List (Bytes × Nat)
  oplogValid : Bool
  fs : Fs := []
  /-- cluster simulation: a command that reaches `start_election` records the request instead of
  running the election to its end; the election then proceeds as a coroutine (`Model/Election.lean`) -/
  deferElection : Bool := false
  electionRequested : Bool := false
deriving Repr, Inhabited

/-- `Databases::next_database_id`: one past the largest database id in use -/
def nextDbId (dbs : List (Bytes × Db)) : Nat :=
  match dbs with
  | [] => 0
  | _ => (dbs.foldl (fun m p => max m p.2.id) 0) + 1

inductive Resp
  | value (key value : Bytes) (version : Int)
  | ok
  | set (key value : Bytes)
  | error (msg : Bytes)
  | versionError (msg key : Bytes) (oldVersion version : Int)
deriving Repr, DecidableEq

def Resp.isError : Resp → Bool
  | .error _ => true
  | .versionError .. => true
  | _ => false

abbrev Out := Resp × List Ev

def Node.tick (n : Node) : Node × Nat := ({ n with clock := n.clock + 1 }, n.clock)

def Node.session (n : Node) (s : Sid) : Session := (AL.get? n.sessions s).getD {}
def Node.setSession (n : Node) (s : Sid) (x : Session) : Node := { n with sessions := AL.put n.sessions s x }
def Node.db? (n : Node) (name : Bytes) : Option Db := AL.get? n.dbs name
def Node.setDb (n : Node) (db : Db) : Node := { n with dbs := AL.put n.dbs db.name db }
def Node.isPrimary (n : Node) : Bool := n.role = .primary
def Node.isEligible (n : Node) : Bool := n.role = .startingUp

def pushes (ps : List Push) : List Ev := ps.map fun p => .push p.sid p.line

/-- `replicate_web`: one op id, one `rp <id> <msg>` line on the replication channel -/
def Node.replicateWeb (n : Node) (msg : Bytes) : Node × List Ev :=
  let (n, id) := n.tick
  (n, [.repl (b!"rp " ++ Bytes.ofNat id ++ [32] ++ msg)])

/-- `send_message_to_primary`: every member with role Primary and a live link -/
def Node.sendToPrimary (n : Node) (msg : Bytes) : List Ev :=
  (n.members.filter fun (_, m) => m.role = .primary && m.connected).map fun (_, m) => .toMember m.name msg

def replicateMsg (db key value : Bytes) (version : Int) : Bytes :=
  b!"replicate " ++ db ++ [32] ++ key ++ [32] ++ Bytes.ofInt version ++ [32] ++ value
def replicateRemoveMsg (db key : Bytes) : Bytes := b!"replicate-remove " ++ db ++ [32] ++ key
def replicateIncMsg (db key : Bytes) (inc : Int) : Bytes :=
  b!"replicate-increment " ++ db ++ [32] ++ key ++ [32] ++ Bytes.ofInt inc
def resolveMsg (op : Nat) (db key value : Bytes) (version : Int) : Bytes :=
  b!"resolve " ++ Bytes.ofNat op ++ [32] ++ db ++ [32] ++ key ++ [32] ++ Bytes.ofInt version ++ [32] ++ value

/-- `replicate_change` -/
def Node.replicateChange (n : Node) (db : Bytes) (c : Change) : Node × List Ev :=
  if n.isPrimary || n.isEligible then n.replicateWeb (replicateMsg db c.key c.value c.version)
  else (n, n.sendToPrimary (replicateMsg db c.key c.value c.version))

def conflictKey (c : Change) : Bytes := Gen.conflictsKey ++ [95] ++ c.key ++ [95] ++ Bytes.ofNat c.opId

/-- `list_conflicts_keys`: all `$conflicts_*` keys, or those of exactly this key
(`$conflicts_<key>_<digits>`) -/
def Db.listConflictKeys (db : Db) (k : Bytes) : List Bytes :=
  let all := db.listKeys (Gen.conflictsKey ++ [95, 42]) true
  if k = [] then all
  else
    let pre := Gen.conflictsKey ++ [95] ++ k ++ [95]
    all.filter fun ck => Bytes.startsWith ck pre && (ck.drop pre.length).all Bytes.isDigit

def Db.arbiterPushes (db : Db) (msg : Bytes) : List Ev :=
  match AL.get? db.watchers Gen.conflictsKey with
  | some ss => ss.map fun s => .push s msg
  | none => []

def Db.hasArbiter (db : Db) : Bool := AL.contains db.watchers Gen.conflictsKey

/-- the conflict notice `resolve <op> <db> <version> <key> <old value | previous conflict key> <new value>` -/
def noticeText (dbName : Bytes) (change : Change) (key : Bytes) (old : Entry) (oldVersion version : Int) (pend : List Bytes) : Bytes :=
  let (oldOrKey, changeVersion) : Bytes × Int :=
    if oldVersion = inConflict then
      match pend.getLast? with
      | some last => (last, vadd version pend.length)
      | none => (old.value, oldVersion)
    else (old.value, oldVersion)
  Gen.resolvePrefix ++ [32] ++ Bytes.ofNat change.opId ++ [32] ++ dbName ++ [32]
    ++ Bytes.ofInt changeVersion ++ [32] ++ key ++ [32] ++ oldOrKey ++ [32] ++ change.value

def SetResp.toResp : SetResp → Resp
  | .set k v => .set k v
  | .versionError k ov v _ _ _ => .versionError Gen.invalidVersionMsg k ov v

/-- `apply_change_to_db_try_fix_conflicts` = `set_value` then `try_resolve_conflict_response` -/
def Node.applyChange (n : Node) (db : Db) (c : Change) : Node × Db × Resp × List Ev :=
  match db.setValue c with
  | (db', .set k v, ps) => (n, db', .set k v, pushes ps)
  | (_, .versionError key oldVersion version old change state, _) =>
    match db.strategy with
    | .none => (n, db, .versionError Gen.invalidVersionMsg key oldVersion version, [])
    | .newer =>
      if change.opId > old.opId then
        let (n, id) := n.tick
        match db.setValue { key := key, value := change.value, version := oldVersion, opId := id, resolve := true } with
        | (db', r, ps) => (n, db', r.toResp, pushes ps)
      else (n, db, .set key old.value, [])
    | .arbiter =>
      if Bytes.startsWith key Gen.securePrefix then (n, db, .versionError Gen.invalidVersionMsg key oldVersion version, [])
      else if !db.hasArbiter then (n, db, .error b!"An conflitct happend and there is no arbiter client not connected", [])
      else
        let db1 := db.setValueVersion change.key old.value inConflict state old.vaddr old.kaddr old.opId
        let msg := noticeText db.name change key old oldVersion version (db1.listConflictKeys change.key)
        let evA := db1.arbiterPushes msg
        let ck := conflictKey change
        let (n, id) := n.tick
        let reg : Change := { key := ck, value := msg, version := -1, opId := id, resolve := false }
        match db1.setValue reg with
        | (db2, _, ps) =>
          let (n, evR) := n.replicateChange db.name reg
          (n, db2, .error (b!"$$conflitct unresolved " ++ ck), evA ++ pushes ps ++ evR)

/-- `set_key_value` -/
def Node.setKeyValue (n : Node) (db : Db) (k v : Bytes) (ver : Int) : Node × Db × Resp × List Ev :=
  let (n, id) := n.tick
  n.applyChange db { key := k, value := v, version := ver, opId := id, resolve := false }

/-- `has_permission` for a non-`$$` key -/
def Db.permits (db : Db) (user : Option Bytes) (kind : PermKind) (key : Bytes) : Bool :=
  let u := user.getD b!"all"
  match db.getValue (b!"$$permission_$" ++ u) with
  | some e =>
    (Permission.parseList e.value).any fun p =>
      p.kinds.contains kind && p.keys.any fun pat => patternMatch pat key
  | none => u = b!"all"

/-- `is_valid_token` / `is_valid_user_token` -/
def Db.validLogin (db : Db) (token : Bytes) (userName : Option Bytes) : Bool :=
  match userName with
  -- (a removed user that was already on disk stays in the map as a tombstone: it is no user any more — fix in /repo, seventh round)
  | some u => (match db.getValue (b!"$$user_" ++ u) with | some e => e.state != .deleted && decide (e.value = token) | none => false)
  | none => (match db.getValue Gen.tokenKey with | some e => decide (e.value = token) | none => false)

def noDbSelected (sid : Sid) : Out := (.error Gen.noDbSelectedMsg, [.push sid Gen.noDbSelectedMsg])

/-- `apply_to_database_name_if_has_permission` guard part -/
inductive Access
  | granted (db : Db)
  | refused (out : Out)

def Node.accessDb (n : Node) (sid : Sid) (dbName : Bytes) (key : Option Bytes) (kind : PermKind) : Access :=
  let s := n.session sid
  match n.db? dbName with
  | none => .refused (noDbSelected sid)
  | some db =>
    match key with
    | none => .granted db
    | some k =>
      let okp := if Bytes.startsWith k Gen.securePrefix then s.auth else db.permits s.user kind k
      if okp then .granted db
      else .refused (.error Gen.permissionDeniedMsg, [.push sid Gen.permissionDeniedMsg])

/-- `apply_if_safe_access` guard part -/
def Node.safeAccess (n : Node) (sid : Sid) (key : Bytes) (kind : PermKind) : Access :=
  let s := n.session sid
  if Bytes.startsWith key Gen.securePrefix && !s.auth then
    .refused (.error b!"To read security keys you must auth as an admin!", [])
  else
    match s.db with
    | some d => n.accessDb sid d (some key) kind
    | none => .refused (noDbSelected sid)

/-- `apply_to_database` guard part -/
def Node.selectedDb (n : Node) (sid : Sid) : Access :=
  match (n.session sid).db with
  | some d => n.accessDb sid d none .read
  | none => .refused (noDbSelected sid)

def notAuth : Out := (.error b!"Not auth", [])

/-- `election_win` -/
def Node.electionWin (n : Node) : Node × List Ev :=
  ({ n with role := .primary }, [.sup b!"election-win self"])

/-- `start_election` as seen by a node whose replication loop is not being pumped while the
call runs (single-node driver): with more than one member the candidacy is enqueued, never
registered as pending, and the call claims the election after the registration wait. -/
def Node.startElection (n : Node) : Node × List Ev :=
  if n.deferElection then ({ n with electionRequested := true }, []) else
  if n.members.length ≤ 1 then n.electionWin
  else
    let (n, ev1) := n.replicateWeb (b!"election candidate " ++ Bytes.ofNat n.pid ++ [32] ++ n.addr)
    let (n, ev2) := n.electionWin
    (n, ev1 ++ ev2)

def Node.startNewElection (n : Node) : Node × List Ev := { n with role := .startingUp }.startElection

/-- `set_connection_counter` -/
def Node.setConnCounter (n : Node) (db : Db) : Node × Db × List Ev :=
  match n.setKeyValue db Gen.connectionsKey (Bytes.ofNat db.conns) (-1) with
  | (n, db, _, evs) => (n, db, evs)

/-- `release_selected_db`: the database the session was bound to counts one connection less -/
def Node.releaseSelected (n : Node) (s : Session) : Node × List Ev :=
  match s.db with
  | some prev =>
    match n.db? prev with
    | some pdb =>
      match n.setConnCounter { pdb with conns := pdb.conns - 1 } with
      | (n, pdb', evs) => (n.setDb pdb', evs)
    | none => (n, [])
  | none => (n, [])

/-- the database just selected counts one connection more (`inc_connections` + `set_connection_counter`) -/
def Node.countSelected (n : Node) (name : Bytes) : Node × List Ev :=
  match n.db? name with
  | some db =>
    match n.setConnCounter { db with conns := db.conns + 1 } with
    | (n, db, evs) => (n.setDb db, evs)
  | none => (n, [])

def memberLine (n : Node) (m : Member) : Bytes :=
  if m.name = n.addr then m.name ++ b!"(self):" ++ m.role.toBytes ++ [32]
  else m.name ++ [40] ++ (if m.connected then b!"Connected" else b!"Disconnected") ++ b!"):" ++ m.role.toBytes

def Node.ackPending (n : Node) (op : Nat) (server : Bytes) : Node :=
  { n with pending := (PMap.ack n.pending op server).1 }

def Node.registerPending (n : Node) (op : Nat) (msg server : Bytes) : Node × Bytes :=
  let r := PMap.register n.pending op msg server
  ({ n with pending := r.1 }, r.2)

def foldComma (l : List Bytes) : Bytes := l.foldl (fun acc x => acc ++ [44] ++ x) []

/-- the database operation of a guarded data command -/
def Node.withAccess (n : Node) (a : Access) (f : Db → Node × Out) : Node × Out :=
  match a with
  | .refused out => (n, out)
  | .granted db => f db

/-- `Databases::add_database` part of `create_db` -/
def Node.addDatabase (n : Node) (db : Db) : Node × Bool × List Ev :=
  match n.db? db.name with
  | some _ => (n, false, [])
  | none =>
    let n := { n with idName := AL.put n.idName db.id db.name, dbs := n.dbs ++ [(db.name, db)] }
    match n.db? Gen.adminDb with
    | some adm =>
      let (n, id) := n.tick
      match adm.setValue { key := db.name, value := b!"{}", version := -1, opId := id, resolve := false } with
      | (adm', _, ps) => (n.setDb adm', true, pushes ps)
    | none => (n, true, [])

def Node.snapshotByName (n : Node) (name : Bytes) (reclaim : Bool) : Node × Option Bytes :=
  if (n.db? name).isSome then ({ n with toSnapshot := n.toSnapshot ++ [(name, reclaim)] }, none)
  else (n, some (b!"Error trying to snapshot database: Database " ++ name ++ b!" not found"))

/-- `has_pendding_conflict`: some conflict of exactly this key is not yet marked `resolved …` -/
def Db.hasUnresolved (db : Db) (key : Bytes) : Bool :=
  (db.listConflictKeys key).any fun k =>
    match db.getValue k with
    | some e => !Bytes.startsWith e.value Gen.resolvedPrefix
    | none => false

/-- `apply_resolution`: the write of the resolved key (version 'in conflict' while other conflicts of the key are open) -/
def Db.applyResolution (db1 : Db) (c : Change) : Db × SetResp × List Push :=
  let pendingLeft := db1.hasUnresolved c.key
  let c' : Change := if pendingLeft then { c with resolve := true, version := inConflict } else { c with resolve := true }
  db1.setValue c'

/-- `resolve_conflit` -/
def Node.resolveConflict (n : Node) (db : Db) (c : Change) : Node × Db × Resp × List Ev :=
  let (n, id) := n.tick
  let reg : Change := { key := conflictKey c, value := Gen.resolvedPrefix ++ [32] ++ c.value, version := -1, opId := id, resolve := false }
  match db.setValue reg with
  | (db1, _, ps1) =>
    let (n, evR) := n.replicateChange db.name reg
    match db1.applyResolution c with
    | (db2, r, ps2) => (n, db2, r.toResp, pushes ps1 ++ evR ++ pushes ps2)

/-- `register_arbiter` -/
def Node.registerArbiter (db : Db) (sid : Sid) : Db × List Ev :=
  let db := db.watch Gen.conflictsKey sid
  (db.listConflictKeys []).foldl (fun (acc : Db × List Ev) ck =>
    let (d, evs) := acc
    match d.getValue ck with
    | some e =>
      if Bytes.startsWith e.value Gen.resolvedPrefix then
        match d.removeValue ck with
        | some (d', ps) => (d', evs ++ pushes ps)
        | none => (d, evs)
      else (d, evs ++ d.arbiterPushes e.value)
    | none => (d, evs)) (db, [])

def commandWords : List Bytes :=
  [b!"ack", b!"arbiter", b!"auth", b!"cluster-state", b!"create-db", b!"create-user", b!"debug",
   b!"election", b!"get", b!"get-safe", b!"increment", b!"join", b!"keys", b!"leave", b!"ls",
   b!"metrics-state", b!"remove", b!"replicate", b!"replicate-increment", b!"replicate-join",
   b!"replicate-leave", b!"replicate-remove", b!"replicate-since", b!"replicate-snapshot", b!"resolve",
   b!"rp", b!"set", b!"set-primary", b!"set-safe", b!"set-secoundary", b!"snapshot", b!"unwatch",
   b!"unwatch-all", b!"use", b!"use-db", b!"watch", b!"list-commands", b!"set-permissions"]


/-- `process_request_obj` -/
def Node.processObj (recur : Node → Sid → Bytes → Node × Out) (n : Node) (sid : Sid) (req : Request) : Node × Out :=
  let s := n.session sid
  match req with
  | .replicateIncrement name key inc =>
    if !s.auth then (n, notAuth) else
    match n.db? name with
    | some db =>
      let (n, id) := n.tick
      match db.incValue key inc id with
      | (db', _, ps) => (n.setDb db', .ok, pushes ps)
    | none => (n, .error b!"Not a valid database name", [])
  | .increment key inc =>
    n.withAccess (n.safeAccess sid key .increment) fun db =>
      if n.isPrimary then
        let (n, id) := n.tick
        match db.incValue key inc id with
        | (db', .ok, ps) => (n.setDb db', .ok, pushes ps)
        | (_, .notNumeric, _) => (n, .error Gen.notNumericMsg, [])
        | (_, .overflow, _) => (n, .error b!"Increment overflow", [])
        | (_, .versionCap, _) => (n, .error Gen.invalidVersionMsg, [])
      else (n, .ok, n.sendToPrimary (replicateIncMsg db.name key inc))
  | .auth user password =>
    let ok := s.auth || (user = n.user && password = n.pwd)
    (n.setSession sid { s with auth := ok }, .ok, [.push sid (if ok then b!"valid auth\n" else b!"invalid auth\n")])
  | .get key =>
    n.withAccess (n.safeAccess sid key .read) fun db =>
      let (v, ver) := db.getKV key
      (n, .value key v ver, [.push sid (Gen.valuePrefix ++ v ++ [10])])
  | .getSafe key =>
    n.withAccess (n.safeAccess sid key .read) fun db =>
      let (v, ver) := db.getKV key
      (n, .value key v ver, [.push sid (Gen.valueVersionPrefix ++ Bytes.ofInt ver ++ [32] ++ v ++ [10])])
  | .remove key =>
    n.withAccess (n.safeAccess sid key .remove) fun db =>
      match db.removeValue key with
      | some (db', ps) =>
        let fwd := if !n.isPrimary then n.sendToPrimary (replicateRemoveMsg db.name key) else []
        (n.setDb db', .ok, pushes ps ++ fwd)
      | none => (n, .error Gen.tokenRemoveMsg, [])
  | .set key value version =>
    n.withAccess (n.safeAccess sid key .write) fun db =>
      match n.setKeyValue db key value version with
      | (n, db', r, evs) =>
        let n := n.setDb db'
        let fwd := if !n.isPrimary then n.sendToPrimary (replicateMsg db.name key value version) else []
        (n, r, evs ++ fwd)
  | .replicateRemove name key =>
    if !s.auth then (n, notAuth) else
    match n.db? name with
    | some db =>
      match db.removeValue key with
      | some (db', ps) => (n.setDb db', .ok, pushes ps)
      | none => (n, .error Gen.tokenRemoveMsg, [])
    | none => (n, .error b!"Not a valid database name", [])
  | .replicateSet name key value version =>
    if !s.auth then (n, notAuth) else
    match n.db? name with
    | some db =>
      match n.setKeyValue db key value version with
      | (n, db', r, evs) => (n.setDb db', r, evs)
    | none => (n, .error b!"Not a valid database name", [])
  | .snapshot reclaim names =>
    if !s.auth then (n, notAuth) else
    if names.isEmpty then
      match s.db with
      | some d => ((n.snapshotByName d reclaim).1, .ok, [])
      | none => (n, .error b!"No database selected", [])
    else
      let missing := names.filter fun d => (n.db? d).isNone
      match missing with
      | [] => (names.foldl (fun n d => (n.snapshotByName d reclaim).1) n, .ok, [])
      | [m] => (n, .error (m ++ b!" is not a valid database name"), [])
      | ms => (n, .error (ms.foldl (fun acc d => acc ++ d ++ b!", ") [] ++ b!"are not a valid database names"), [])
  | .replicateSnapshot reclaim names =>
    if !s.auth then (n, notAuth) else
    let (n, err) := names.foldl (fun (acc : Node × Option Bytes) d =>
      match acc.1.snapshotByName d reclaim with
      | (n', some e) => (n', some e)
      | (n', none) => (n', acc.2)) (n, none)
    (n, match err with | some e => .error e | none => .ok, [])
  | .unwatch key =>
    n.withAccess (n.selectedDb sid) fun db => (n.setDb (db.unwatch key sid), .ok, [])
  | .unwatchAll =>
    n.withAccess (n.selectedDb sid) fun db => (n.setDb (db.unwatchAll sid), .ok, [])
  | .watch key =>
    n.withAccess (n.safeAccess sid key .read) fun db => (n.setDb (db.watch key sid), .ok, [])
  | .useDb token name userName =>
    match n.db? name with
    | none => (n, .error b!"Not a valid database name", [])
    | some db =>
      if db.validLogin token userName then
        -- release_selected_db: a session counts in one database at a time
        let (n, evs0) := n.releaseSelected s
        let s' := match userName with
          | some u => { s with db := some name, user := some u }
          | none => { s with db := some name }
        let (n, evs1) := (n.setSession sid s').countSelected name
        (n, .ok, evs0 ++ evs1)
      else (n, .error b!"Invalid token", [])
  | .createUser token userName =>
    n.withAccess (n.safeAccess sid Gen.userKeyPrefix .write) fun db =>
      let key := Gen.userKeyPrefix ++ [95] ++ userName
      match n.setKeyValue db key token (-1) with
      | (n, db', .set _ _, evs) =>
        let n := n.setDb db'
        (n, .ok, evs ++ (if !n.isPrimary then n.sendToPrimary (replicateMsg db.name key token (-1)) else []))
      | (n, db', r, evs) => (n.setDb db', r, evs)
  | .createDb token name strategy =>
    if !s.auth then (n, notAuth) else
    if n.isPrimary || (match s.member with | some (_, r) => r = .primary | none => false) then
      let tmp := Db.new name (nextDbId n.dbs) strategy
      match n.setKeyValue tmp Gen.tokenKey token (-1) with
      | (n, tmp, _, _) =>
        match n.addDatabase tmp with
        | (n, true, evs) => (n, .ok, evs ++ [.push sid b!"create-db success\n"])
        | (n, false, _) => (n, .error b!"database already exists", [])
    else (n, .error b!"Create database only allow from primary!", [])
  | .electionActive _ => if !s.auth then (n, notAuth) else (n, .ok, [])
  | .electionWin =>
    if !s.auth then (n, notAuth) else
    let (n, evs) := n.electionWin
    (n, .ok, evs)
  | .election id _ =>
    if !s.auth then (n, notAuth) else
    if id = n.pid then (n, .ok, [])
    else if id > n.pid then
      let (n, evs) := n.startElection
      (n, .ok, evs)
    else
      let (n, evs) := n.replicateWeb (b!"election alive " ++ n.addr)
      ({ n with role := .secoundary }, .ok, evs)
  | .setPrimary name =>
    if !s.auth then (n, notAuth) else
    if !n.isPrimary then
      let n := { n with role := .secoundary }
      (n.setSession sid { s with member := some (name, .primary) }, .ok, [.sup (b!"primary " ++ name)])
    else
      let (n, evs) := n.startNewElection
      (n, .ok, evs)
  | .setSecoundary name =>
    if !s.auth then (n, notAuth) else
    (n.setSession sid { s with member := some (name, .secoundary) }, .ok, [])
  | .join name =>
    if !s.auth then (n, notAuth) else
    if n.isPrimary || n.isEligible then
      let (n, evs) := n.startNewElection
      (n, .ok, .sup (b!"secoundary " ++ name) :: evs)
    else (n, .ok, [])
  | .leave name =>
    if !s.auth then (n, notAuth) else
    let (n, evs) := n.startNewElection
    (n, .ok, .sup (b!"leave " ++ name) :: evs)
  | .replicateLeave name =>
    if !s.auth then (n, notAuth) else (n, .ok, [.sup (b!"leave " ++ name)])
  | .replicateJoin name =>
    if !s.auth then (n, notAuth) else (n, .ok, [.sup (b!"new-secoundary " ++ name)])
  | .replicateSince nodeName startAt =>
    if !s.auth then (n, notAuth) else
    (n, .ok, [.sup (b!"replicate-since-to " ++ nodeName ++ [32] ++ Bytes.ofNat startAt)])
  | .clusterState =>
    if !s.auth then (n, notAuth) else
    let lines := Bytes.sort (n.members.map fun (_, m) => memberLine n m)
    let txt := lines.foldl (fun acc l => acc ++ [32] ++ l ++ [44]) []
    (n, .value b!"cluster-state" txt (-1), [.push sid (b!"cluster-state " ++ txt ++ [10])])
  | .metricsState =>
    if !s.auth then (n, notAuth) else
    (n, .value b!"oplog-state" b!"<masked>" (-1), [.push sid b!"metrics-state <masked>\n"])
  | .keys pattern =>
    n.withAccess (n.selectedDb sid) fun db =>
      let ks := foldComma (db.listKeys pattern s.auth)
      (n, .value b!"keys" ks (-1), [.push sid (b!"keys " ++ ks ++ [10])])
  | .acknowledge op server =>
    if !s.auth then (n, notAuth) else (n.ackPending op server, .ok, [])
  | .replicateRequest str op =>
    -- an envelope inside an envelope is refused (bounds the recursion of `process_request`)
    if Bytes.startsWith (Bytes.trimBoth 10 str) b!"rp " then (n, .error b!"Invalid replication request str", []) else
    let ack : Ev := .push sid (b!"ack " ++ Bytes.ofNat op ++ [32] ++ n.addr ++ b!" \n")
    match recur n sid str with
    | (n, r, evs) => (n, r, ack :: evs)
  | .debug command =>
    if !s.auth then (n, notAuth) else
    if command = b!"pending-ops" then (n, .ok, [.push sid b!"pending-ops <masked>\n"])
    else if command = b!"pendding-conflitcts" then
      match n.selectedDb sid with
      | .refused (_, evs) => (n, .ok, evs)
      | .granted db =>
        let ks := (db.map.filter fun (k, e) => e.state != .deleted && Bytes.startsWith k b!"$$conflitcts").map (·.1)
        (n, .ok, [.push sid (b!"conflitcts-list " ++ foldComma (Bytes.sort ks) ++ [10])])
    else if command = b!"list-dbs" then
      let ls := Bytes.sort (n.dbs.map fun (_, d) => d.name ++ b!" : " ++ d.strategy.toBytes)
      (n, .ok, [.push sid (b!"dbs-list \n" ++ Bytes.join [10] ls ++ [10])])
    else if command = b!"force-election" then
      let (n, evs) := n.startNewElection
      (n, .ok, evs)
    else if command = b!"process-info" then
      (n, .ok, [.push sid (b!"process-info \nprocess_id: " ++ Bytes.ofNat n.pid ++ [10])])
    else (n, .ok, [])
  | .listCommands =>
    if !s.auth then (n, notAuth) else
    (n, .ok, [.push sid (b!"commands-list " ++ foldComma (Bytes.sort commandWords) ++ [10])])
  | .arbiter =>
    n.withAccess (n.selectedDb sid) fun db =>
      let (db', evs) := Node.registerArbiter db sid
      (n.setDb db', .ok, evs)
  | .resolve op dbName key value version =>
    let c : Change := { key, value, version, opId := op, resolve := true }
    let a := if s.auth then n.accessDb sid dbName none .read else n.safeAccess sid key .write
    n.withAccess a fun db =>
      if n.isPrimary then
        match n.resolveConflict db c with
        | (n, db', r, evs) => (n.setDb db', r, evs)
      else
        -- replica-set path: a resolve that arrives from the primary is not sent back to it
        let fromPrimary := s.auth && (match s.member with | some (_, r) => r = .primary | none => false)
        if fromPrimary then
          -- the conflict registry key is replicated on its own; the resolved value only travels with this command
          match db.applyResolution c with
          | (db', _, ps) => (n.setDb db', .ok, pushes ps)
        else (n, .ok, n.sendToPrimary (resolveMsg op dbName key value version))
  | .setPermissions user perms =>
    n.withAccess (n.safeAccess sid Gen.permKeyPrefix .write) fun db =>
      let key := Gen.permKeyPrefix ++ user
      let value := Permission.renderList perms
      match n.setKeyValue db key value (-1) with
      | (n, db', .set _ _, evs) =>
        let n := n.setDb db'
        (n, .ok, evs ++ (if !n.isPrimary then n.sendToPrimary (replicateMsg db.name key value (-1)) else []))
      | (n, db', r, evs) => (n.setDb db', r, evs)

def Node.replicateRequestCore (n : Node) (req : Request) (dbName : Option Bytes) (r : Resp) : Node × Out :=
  let web (msg : Bytes) : Node × Out := let (n, evs) := n.replicateWeb msg; (n, .ok, evs)
  let sel := dbName.getD []
  match req with
  | .createDb token name strategy => web (b!"create-db " ++ name ++ [32] ++ token ++ [32] ++ strategy.toBytes)
  | .snapshot reclaim names =>
    let names := if names.isEmpty then [sel] else names
    web (b!"replicate-snapshot " ++ Bytes.join [124] names ++ [32] ++ (if reclaim then b!"true" else b!"false"))
  | .replicateSnapshot reclaim names =>
    web (b!"replicate-snapshot " ++ Bytes.join [124] names ++ [32] ++ (if reclaim then b!"true" else b!"false"))
  | .set key value version => web (replicateMsg sel key value version)
  | .resolve op db key value version => web (resolveMsg op db key value version)
  | .replicateSet db key value version => web (replicateMsg db key value version)
  | .remove key => web (replicateRemoveMsg sel key)
  | .replicateRemove db key => web (replicateRemoveMsg db key)
  | .election id name => web (b!"election candidate " ++ Bytes.ofNat id ++ [32] ++ name)
  | .electionActive name => web (b!"election active " ++ name)
  | .leave name => web (b!"replicate-leave " ++ name)
  | .replicateIncrement db key inc => web (replicateIncMsg db key inc)
  | .increment key inc => web (replicateIncMsg sel key inc)
  | .createUser token user => web (replicateMsg sel (Gen.userKeyPrefix ++ [95] ++ user) token (-1))
  | .setPermissions user perms => web (replicateMsg sel (Gen.permKeyPrefix ++ user) (Permission.renderList perms) (-1))
  | _ => (n, r, [])

/-- `replicate_request` -/
def Node.replicateRequest (n : Node) (req : Request) (dbName : Option Bytes) (r : Resp) : Node × Out :=
  if r.isError then (n, r, []) else
  match dbName with
  | some d =>
    if (n.db? d).isNone then (n, .error (b!"Database " ++ d ++ b!" not found"), [])
    else Node.replicateRequestCore n req dbName r
  | none => Node.replicateRequestCore n req dbName r

/-- `process_request` with the handler for nested `rp` lines given -/
def Node.processRequestWith (recur : Node → Sid → Bytes → Node × Out) (n : Node) (sid : Sid) (input : Bytes) : Node × Out :=
  let dbNameState := (n.session sid).db
  match Request.parse (Bytes.trimBoth 10 input) with
  | .error e => (n, .error e, [])
  | .ok req =>
    match Node.processObj recur n sid req with
    | (n, r, evs) =>
      match Node.replicateRequest n req dbNameState r with
      | (n, r', evs') => (n, r', evs ++ evs')


/-- the handler of a nested `rp` line: `process_request` again, `fuel` levels deep -/
def Node.recurOf : Nat → Node → Sid → Bytes → Node × Out
  | 0 => fun n _ _ => (n, .error b!"fuel", [])
  | fuel + 1 => Node.processRequestWith (Node.recurOf fuel)

/-- `process_request` -/
def Node.processRequest (fuel : Nat) (n : Node) (sid : Sid) (input : Bytes) : Node × Out :=
  Node.processRequestWith (Node.recurOf fuel) n sid input

/-- top-level entry: enough fuel for every nesting of `rp` the input can contain -/
def Node.exec (n : Node) (sid : Sid) (input : Bytes) : Node × Out :=
  Node.processRequest (input.length + 1) n sid input

end Nun
