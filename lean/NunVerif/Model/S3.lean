import NunVerif.Model.Session
/-
  The `s3` storage strategy (`storage/s3.rs`): one snapshot = two objects per database,
  `<prefix>/<db>/nun.keys` and `<prefix>/<db>/nun.values`, built from the keys to update only and
  PUT whole; start-up = list the objects, GET both, rebuild the database.
  The object store is an association list key ↦ content.
-/
namespace Nun

abbrev Objs := List (Bytes × Bytes)

def statusCode : Status → Int
  | .ok => 0 | .deleted => 1 | .updated => 2 | .new => 3

structure S3St where
  db : Db
  keys : Bytes := []
  values : Bytes := []
  vaddr : Nat := 0
  kaddr : Nat := 0
  clock : Nat

/-- one turn of the `for (key, value) in keys_to_update` loop of `storage_data_on_cloud` -/
def s3SnapKey (s : S3St) (k : Bytes) (e : Entry) : S3St :=
  { db := if e.state = .deleted then s.db else s.db.setValueVersion k e.value e.version .ok s.vaddr s.kaddr s.clock,
    values := s.values ++ le64 e.value.length ++ e.value ++ le32i (statusCode e.state),
    keys := s.keys ++ encKey k e.version s.vaddr,
    vaddr := s.vaddr + (8 + e.value.length + 4), kaddr := s.kaddr + keyRecSize k.length, clock := if e.state = .deleted then s.clock else s.clock + 1 }

def s3Prefix : Bytes := b!"nun-db-base/"

/-- `S3Storage::storage_data_on_cloud`; `putOk k` = whether the k-th PUT of this call succeeds
(a failed upload is ignored by the caller) -/
def s3Snapshot (db : Db) (objs : Objs) (reclaim : Bool) (order : List Bytes) (clock : Nat) (putOk : Nat → Bool := fun _ => true) : Db × Objs × Nat :=
  -- both objects are rewritten whole: every key goes in, whatever `reclaim` says
  let _ := reclaim
  let todo := db.map.foldr (insertByIx order) []
  let st := todo.foldl (fun s (k, e) => s3SnapKey s k e) ({ db, clock } : S3St)
  let objs := if putOk 0 then AL.put objs (s3Prefix ++ db.name ++ b!"/nun.keys") st.keys else objs
  let objs := if putOk 1 then AL.put objs (s3Prefix ++ db.name ++ b!"/nun.values") st.values else objs
  (st.db, objs, st.clock)

/-- the reader of `read_data_from_cloud`: every record becomes an entry (removed when the state
stored after the value says so; a version of -1 is not special) -/
def s3LoadLoop (keys values : Bytes) : Nat → Nat → KV → Nat → Option (KV × Nat)
  | 0, _, map, clock => some (map, clock)
  | fuel + 1, pos, map, clock =>
    let lenB := (keys.drop pos).take 8
    if lenB.length = 0 then some (map, clock)
    else
      let klen := ofLE (lenB ++ List.replicate (8 - lenB.length) 0)
      if klen ≥ allocBound then none else
      let pos := pos + lenB.length
      let kbuf := (keys.drop pos).take klen
      let kbuf := kbuf ++ List.replicate (klen - kbuf.length) 0
      if !validUtf8 kbuf then none else
      let pos := pos + min klen ((keys.drop pos).length)
      let verB := (keys.drop pos).take 4
      let pos := pos + verB.length
      let addrB := (keys.drop pos).take 8
      let pos := pos + addrB.length
      let vaddr := ofLE (addrB ++ List.replicate (8 - addrB.length) 0)
      let vlenB := (values.drop vaddr).take 8
      let vlen := ofLE (vlenB ++ List.replicate (8 - vlenB.length) 0)
      if vlen ≥ allocBound then none else
      let vbuf := (values.drop (vaddr + vlenB.length)).take vlen
      let vbuf := vbuf ++ List.replicate (vlen - vbuf.length) 0
      if !validUtf8 vbuf then none else
      let version := i32OfLE (verB ++ List.replicate (4 - verB.length) 0)
      -- the state stored after the value: only "removed" is kept
      let stB := (values.drop (vaddr + vlenB.length + vlen)).take 4
      let state : Status := if i32OfLE (stB ++ List.replicate (4 - stB.length) 0) = 1 then .deleted else .ok
      let map := AL.put map kbuf { value := vbuf, version, opId := clock, state, vaddr, kaddr := pos }
      s3LoadLoop keys values fuel pos map (clock + 1)

/-- `read_data_from_cloud`: `none` = the start-up panics (a missing object, bad UTF-8) -/
def s3LoadDb (objs : Objs) (name : Bytes) (clock : Nat) : Option (Db × Nat) :=
  match AL.get? objs (s3Prefix ++ name ++ b!"/nun.values"), AL.get? objs (s3Prefix ++ name ++ b!"/nun.keys") with
  | some values, some keys =>
    match s3LoadLoop keys values (keys.length + 1) 0 [] clock with
    | some (map, clock) => some ({ name, id := 1, strategy := .arbiter, map, watchers := [], conns := 0 }, clock)
    | none => none
  | _, _ => none

/-- the databases a start-up finds: one per `…/nun.values` object -/
def s3DbNames (objs : Objs) : List Bytes :=
  objs.filterMap fun (k, _) =>
    if Bytes.startsWith k s3Prefix && Bytes.endsWith k b!"/nun.values" then
      some ((k.drop s3Prefix.length).take (k.length - s3Prefix.length - 11))
    else none

end Nun
