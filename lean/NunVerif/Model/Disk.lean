import NunVerif.Model.Value
import NunVerif.Model.Lit
/-
  The disk storage strategy (`storage/disk.rs`): byte-exact record encoders, the snapshot writer
  `storage_data_disk` as a function from (database, files, mode, iteration order) to (database,
  files), and the loader `create_db_from_file_name` with its buffer-reuse / short-read behaviour.
  A file system is a map from file name to contents.
-/
namespace Nun

abbrev Fs := List (Bytes × Bytes)

def leBytes : Nat → Nat → Bytes
  | 0, _ => []
  | n + 1, v => (v % 256) :: leBytes n (v / 256)

def le64 (v : Nat) : Bytes := leBytes 8 v
/-- two's complement little-endian `i32` -/
def le32i (v : Int) : Bytes := leBytes 4 (if v < 0 then (4294967296 + v).toNat else v.toNat)

def ofLE : Bytes → Nat
  | [] => 0
  | b :: r => b + 256 * ofLE r

def i32OfLE (b : Bytes) : Int :=
  let u := ofLE b
  if u ≥ 2147483648 then (u : Int) - 4294967296 else (u : Int)

/-- value record: length (8) ++ bytes ++ status (4, always `Ok` = 0) -/
def encValue (v : Bytes) : Bytes := le64 v.length ++ v ++ le32i 0
/-- key record: length (8) ++ key ++ version (4) ++ value address (8) -/
def encKey (k : Bytes) (version : Int) (vaddr : Nat) : Bytes := le64 k.length ++ k ++ le32i version ++ le64 vaddr

def keyRecSize (klen : Nat) : Nat := 8 + klen + 8 + 4

def keysFile (db : Bytes) : Bytes := db ++ b!"-nun.data.keys"
def valuesFile (db : Bytes) : Bytes := db ++ b!"-nun.data.values"
def metaFile (db : Bytes) : Bytes := db ++ b!"-nun.madadata"

def Fs.read (fs : Fs) (name : Bytes) : Option Bytes := AL.get? fs name
def Fs.size (fs : Fs) (name : Bytes) : Nat := ((fs.read name).getD []).length
def Fs.append (fs : Fs) (name data : Bytes) : Fs := AL.put fs name ((fs.read name).getD [] ++ data)

/-- overwrite `data` at offset `pos`, zero-filling a gap past the end (`pwrite`) -/
def pwriteBytes (file : Bytes) (pos : Nat) (data : Bytes) : Bytes :=
  let padded := file ++ List.replicate (pos - file.length) 0
  padded.take pos ++ data ++ padded.drop (pos + data.length)

def Fs.pwrite (fs : Fs) (name : Bytes) (pos : Nat) (data : Bytes) : Fs :=
  AL.put fs name (pwriteBytes ((fs.read name).getD []) pos data)

def strategyCode : Strategy → Int
  | .none => 0 | .newer => 1 | .arbiter => 2
def strategyOfCode (c : Int) : Strategy := if c = 2 then .arbiter else if c = 1 then .newer else .none

/-- `write_metadata_file`: create without truncation, two writes at offset 0 and 8 -/
def Fs.writeMeta (fs : Fs) (db : Db) : Fs :=
  (fs.pwrite (metaFile db.name) 0 (le64 db.id)).pwrite (metaFile db.name) 8 (le32i (strategyCode db.strategy))

structure SnapSt where
  db : Db
  fs : Fs
  vaddr : Nat
  kaddr : Nat
  clock : Nat

/-- one iteration of the `for (key, value) in keys_to_update` loop; `e` is the cloned entry -/
def snapKey (reclaim : Bool) (name : Bytes) (s : SnapSt) (k : Bytes) (e : Entry) : SnapSt :=
  let appendNew : SnapSt :=
    let fs := (s.fs.append (valuesFile name) (encValue e.value)).append (keysFile name) (encKey k e.version s.vaddr)
    { db := s.db.setValueVersion k e.value e.version .ok s.vaddr s.kaddr s.clock, fs,
      vaddr := s.vaddr + (8 + e.value.length + 4), kaddr := s.kaddr + keyRecSize k.length, clock := s.clock + 1 }
  match e.state with
  | .ok => if reclaim then appendNew else s
  | .new => appendNew
  | .updated =>
    let fs := s.fs.append (valuesFile name) (encValue e.value)
    if !reclaim then
      let at0 := e.kaddr + keyRecSize k.length - 12
      let fs := (fs.pwrite (keysFile name) at0 (le32i e.version)).pwrite (keysFile name) (at0 + 4) (le64 s.vaddr)
      { s with db := s.db.setValueVersion k e.value e.version .ok s.vaddr e.kaddr s.clock, fs,
               vaddr := s.vaddr + (8 + e.value.length + 4), clock := s.clock + 1 }
    else
      let fs := fs.append (keysFile name) (encKey k e.version s.vaddr)
      { db := s.db.setValueVersion k e.value e.version .ok s.vaddr s.kaddr s.clock, fs,
        vaddr := s.vaddr + (8 + e.value.length + 4), kaddr := s.kaddr + keyRecSize k.length, clock := s.clock + 1 }
  | .deleted =>
    if !reclaim then
      let at0 := e.kaddr + keyRecSize k.length - 12
      { s with fs := (s.fs.pwrite (keysFile name) at0 (le32i (-1))).pwrite (keysFile name) (at0 + 4) (le64 0) }
    else
      -- not copied to the new files: the tombstone is dropped from memory too
      match s.db.getValue k with
      | some cur => if cur.state = .deleted then { s with db := { s.db with map := AL.erase s.db.map k } } else s
      | none => s

/-- position of `k` in the observed order (keys not listed sort last) -/
def orderIx (order : List Bytes) (k : Bytes) : Nat := (order.idxOf k)

def insertByIx (order : List Bytes) (x : Bytes × Entry) : List (Bytes × Entry) → List (Bytes × Entry)
  | [] => [x]
  | y :: ys => if orderIx order y.1 ≤ orderIx order x.1 then y :: insertByIx order x ys else x :: y :: ys

/-- `NodeDrive::storage_data_disk` + `remove_backup_key_file`. `order` = iteration order of the
database's `HashMap` as observed on the implementation. Returns the database, the files and the clock. -/
def snapshotDb (db : Db) (fs : Fs) (reclaim : Bool) (order : List Bytes) (clock : Nat) : Db × Fs × Nat :=
  let todo := (db.map.filter fun (_, e) => e.state != .ok || reclaim).foldr (insertByIx order) []
  let name := db.name
  -- get_key_file_append_mode: rename .keys → .keys.old when reclaiming, then create/append
  let fs : Fs := if reclaim && (fs.read (keysFile name)).isSome then AL.erase fs (keysFile name) else fs
  let fs : Fs := if (fs.read (keysFile name)).isNone then AL.put fs (keysFile name) [] else fs
  -- get_values_file_append_mode: rename + remove when reclaiming
  let fs : Fs := if reclaim && (fs.read (valuesFile name)).isSome then AL.erase fs (valuesFile name) else fs
  let fs : Fs := if (fs.read (valuesFile name)).isNone then AL.put fs (valuesFile name) [] else fs
  let st : SnapSt := { db, fs, vaddr := fs.size (valuesFile name), kaddr := fs.size (keysFile name), clock }
  let st := todo.foldl (fun s (k, e) => snapKey reclaim name s k e) st
  (st.db, st.fs.writeMeta db, st.clock)

/-- UTF-8 well-formedness exactly as `str::from_utf8` (no overlong forms, no surrogates, ≤ U+10FFFF) -/
def validUtf8 : Bytes → Bool
  | [] => true
  | b0 :: r =>
    if b0 < 128 then validUtf8 r
    else if 194 ≤ b0 && b0 ≤ 223 then
      match r with
      | b1 :: r' => (128 ≤ b1 && b1 ≤ 191) && validUtf8 r'
      | _ => false
    else if 224 ≤ b0 && b0 ≤ 239 then
      match r with
      | b1 :: b2 :: r' =>
        let lo := if b0 = 224 then 160 else 128
        let hi := if b0 = 237 then 159 else 191
        (lo ≤ b1 && b1 ≤ hi) && (128 ≤ b2 && b2 ≤ 191) && validUtf8 r'
      | _ => false
    else if 240 ≤ b0 && b0 ≤ 244 then
      match r with
      | b1 :: b2 :: b3 :: r' =>
        let lo := if b0 = 240 then 144 else 128
        let hi := if b0 = 244 then 143 else 191
        (lo ≤ b1 && b1 ≤ hi) && (128 ≤ b2 && b2 ≤ 191) && (128 ≤ b3 && b3 ≤ 191) && validUtf8 r'
      | _ => false
    else false

/-- `File::read(&mut buf)` at `pos` into a buffer of `buf.length` bytes: overwrites the first
`n` bytes (the rest of the buffer keeps its previous contents) and returns `n` -/
def readInto (buf : Bytes) (file : Bytes) (pos : Nat) : Bytes × Nat :=
  let got := (file.drop pos).take buf.length
  (got ++ buf.drop got.length, got.length)

inductive LoadRes
  | ok (map : KV)
  | panic (why : Bytes)
deriving Repr

/-- buffers that survive loop iterations in `create_db_from_file_name` -/
structure LoadSt where
  pos : Nat := 0
  lenBuf : Bytes := [0, 0, 0, 0, 0, 0, 0, 0]
  addrBuf : Bytes := [0, 0, 0, 0, 0, 0, 0, 0]
  verBuf : Bytes := [0, 0, 0, 0]
  kaddr : Nat := 0
  map : KV := []
  clock : Nat

/-- allocation bound above which the real loader aborts (`vec![0; n]` of an absurd length) -/
def allocBound : Nat := 1099511627776

def loadLoop (keys values : Bytes) : Nat → LoadSt → LoadRes × Nat
  | 0, st => (.ok st.map, st.clock)
  | fuel + 1, st =>
    let (lenBuf, n) := readInto st.lenBuf keys st.pos
    if n = 0 then (.ok st.map, st.clock)
    else
      let klen := ofLE lenBuf
      if klen ≥ allocBound then (.panic b!"alloc", st.clock) else
      let pos := st.pos + n
      let (kbuf, kn) := readInto (List.replicate klen 0) keys pos
      if !validUtf8 kbuf then (.panic b!"utf8-key", st.clock) else
      let pos := pos + kn
      let (verBuf, vn) := readInto st.verBuf keys pos
      let pos := pos + vn
      let (addrBuf, an) := readInto st.addrBuf keys pos
      let pos := pos + an
      let vaddr := ofLE addrBuf
      let (lenBuf, ln) := readInto lenBuf values vaddr
      let vlen := ofLE lenBuf
      if vlen ≥ allocBound then (.panic b!"alloc", st.clock) else
      let (vbuf, _) := readInto (List.replicate vlen 0) values (vaddr + ln)
      if !validUtf8 vbuf then (.panic b!"utf8-value", st.clock) else
      let version := i32OfLE verBuf
      let map := if version != -1 then
          AL.put st.map kbuf { value := vbuf, version, opId := st.clock, state := .ok, vaddr, kaddr := st.kaddr }
        else st.map
      let clock := if version != -1 then st.clock + 1 else st.clock
      loadLoop keys values fuel { pos, lenBuf, addrBuf, verBuf, kaddr := st.kaddr + keyRecSize klen, map, clock }

/-- `create_db_from_file_name` (data part) -/
def loadDb (fs : Fs) (name : Bytes) (clock : Nat) : LoadRes × Nat :=
  match fs.read (keysFile name), fs.read (valuesFile name) with
  | some keys, some values => loadLoop keys values (keys.length + 1) { clock }
  | _, _ => (.panic b!"missing-file", clock)

/-- `load_db_metadata_from_disk_or_empty` -/
def loadMeta (fs : Fs) (name : Bytes) (ndbs : Nat) : Nat × Strategy :=
  match fs.read (metaFile name) with
  | some m => (ofLE (m.take 8 ++ List.replicate (8 - (m.take 8).length) 0),
               strategyOfCode (i32OfLE ((m.drop 8).take 4 ++ List.replicate (4 - ((m.drop 8).take 4).length) 0)))
  | none => (ndbs, .newer)

end Nun

namespace Nun

/-! ### The snapshot as a sequence of file-system operations (for crash points, C11)

`snapshotOps` emits exactly the operations `storage_data_disk` performs on the files, in order,
including the automatic flushes of its two `BufWriter`s (capacity 250). -/

inductive FsOp
  | create (p : Bytes)                       -- `open(O_CREAT)` of a missing file
  | append (p : Bytes) (data : Bytes)        -- `write` on an `O_APPEND` descriptor
  | pwrite (p : Bytes) (off : Nat) (data : Bytes)
  | rename (a b : Bytes)
  | unlink (p : Bytes)
deriving DecidableEq, Repr

def Fs.applyOp (fs : Fs) : FsOp → Fs
  | .create p => if (fs.read p).isSome then fs else AL.put fs p []
  | .append p d => fs.append p d
  | .pwrite p off d => fs.pwrite p off d
  | .rename a b =>
    match fs.read a with
    | some c => AL.put (AL.erase fs a) b c
    | none => fs
  | .unlink p => AL.erase fs p

def Fs.applyOps (fs : Fs) (ops : List FsOp) : Fs := ops.foldl Fs.applyOp fs

/-- `std::io::BufWriter` over an append-mode file -/
structure BufW where
  path : Bytes
  cap : Nat
  buf : Bytes
deriving Repr

def BufW.flush (w : BufW) : BufW × List FsOp :=
  if w.buf = [] then (w, []) else ({ w with buf := [] }, [.append w.path w.buf])

/-- `BufWriter::write`: flush first when the data does not fit in what is left; data at least as
large as the whole buffer goes straight to the file -/
def BufW.write (w : BufW) (data : Bytes) : BufW × List FsOp :=
  if data.length < w.cap - w.buf.length then ({ w with buf := w.buf ++ data }, [])
  else
    let (w1, ops1) := if data.length > w.cap - w.buf.length then w.flush else (w, [])
    if data.length ≥ w1.cap then (w1, ops1 ++ [.append w1.path data])
    else ({ w1 with buf := w1.buf ++ data }, ops1)

def BufW.writes (w : BufW) (datas : List Bytes) : BufW × List FsOp :=
  datas.foldl (fun (st : BufW × List FsOp) d => let (w', ops) := st.1.write d; (w', st.2 ++ ops)) (w, [])

def bufCap : Nat := 250

structure TraceSt where
  keys : BufW
  values : BufW
  ops : List FsOp
  vaddr : Nat
  kaddr : Nat

/-- one iteration of the writer's loop, as file operations -/
def traceKey (reclaim : Bool) (name : Bytes) (s : TraceSt) (k : Bytes) (e : Entry) : TraceSt :=
  let valueParts : List Bytes := [le64 e.value.length, e.value, le32i 0]
  let keyParts (va : Nat) : List Bytes := [le64 k.length, k, le32i e.version, le64 va]
  let appendNew : TraceSt :=
    let (vw, ops1) := s.values.writes valueParts
    let (kw, ops2) := s.keys.writes (keyParts s.vaddr)
    { keys := kw, values := vw, ops := s.ops ++ ops1 ++ ops2,
      vaddr := s.vaddr + (8 + e.value.length + 4), kaddr := s.kaddr + keyRecSize k.length }
  match e.state with
  | .ok => if reclaim then appendNew else s
  | .new => appendNew
  | .updated =>
    if !reclaim then
      let (vw, ops1) := s.values.writes valueParts
      let at0 := e.kaddr + keyRecSize k.length - 12
      { s with values := vw, ops := s.ops ++ ops1 ++ [.pwrite (keysFile name) at0 (le32i e.version), .pwrite (keysFile name) (at0 + 4) (le64 s.vaddr)],
               vaddr := s.vaddr + (8 + e.value.length + 4) }
    else
      let (vw, ops1) := s.values.writes valueParts
      let (kw, ops2) := s.keys.writes (keyParts s.vaddr)
      { keys := kw, values := vw, ops := s.ops ++ ops1 ++ ops2,
        vaddr := s.vaddr + (8 + e.value.length + 4), kaddr := s.kaddr + keyRecSize k.length }
  | .deleted =>
    if !reclaim then
      let at0 := e.kaddr + keyRecSize k.length - 12
      { s with ops := s.ops ++ [.pwrite (keysFile name) at0 (le32i (-1)), .pwrite (keysFile name) (at0 + 4) (le64 0)] }
    else s

/-- the operations of `storage_data_disk` + `remove_backup_key_file` on `fs` -/
def snapshotOps (db : Db) (fs : Fs) (reclaim : Bool) (order : List Bytes) : List FsOp :=
  let todo := (db.map.filter fun (_, e) => e.state != .ok || reclaim).foldr (insertByIx order) []
  let name := db.name
  let kf := keysFile name; let vf := valuesFile name
  let old := kf ++ b!".old"
  -- the values file of a new database is created before anything else (the start-up opens both files of every keys file it finds)
  let pre0 : List FsOp := if (fs.read vf).isNone then [.create vf] else []
  let fs := fs.applyOps pre0
  let pre1 : List FsOp := if reclaim && (fs.read kf).isSome then [.rename kf old] else []
  let fs1 := fs.applyOps pre1
  let pre2 : List FsOp := if (fs1.read kf).isNone then [.create kf] else []
  let fs2 := fs1.applyOps pre2
  let pre3 : List FsOp := if reclaim && (fs2.read vf).isSome then [.rename vf (vf ++ b!".old"), .unlink (vf ++ b!".old")] else []
  let fs3 := fs2.applyOps pre3
  let pre4 : List FsOp := if (fs3.read vf).isNone then [.create vf] else []
  let fs4 := fs3.applyOps pre4
  let st : TraceSt := { keys := { path := kf, cap := bufCap, buf := [] }, values := { path := vf, cap := bufCap, buf := [] },
                        ops := [], vaddr := fs4.size vf, kaddr := fs4.size kf }
  let st := todo.foldl (fun s (k, e) => traceKey reclaim name s k e) st
  let (_, kflush) := st.keys.flush
  let (_, vflush) := st.values.flush
  let mf := metaFile name
  let metaOps : List FsOp := (if (fs.read mf).isNone then [.create mf] else []) ++
    [.pwrite mf 0 (le64 db.id), .pwrite mf 8 (le32i (strategyCode db.strategy))]
  let fsEnd := fs4.applyOps (st.ops ++ kflush ++ vflush ++ metaOps)
  let post : List FsOp := if (fsEnd.read old).isSome then [.unlink old] else []
  pre0 ++ pre1 ++ pre2 ++ pre3 ++ pre4 ++ st.ops ++ kflush ++ vflush ++ metaOps ++ post

end Nun
