import NunVerif.Model.Bytes
import NunVerif.Model.Lit
import NunVerif.Model.Value
/-
  `Request` and `Request::parse` (parse_request.rs), sub-parser by sub-parser.
-/
namespace Nun

inductive PermKind | read | write | increment | remove
deriving DecidableEq, Repr

structure Permission where
  kinds : List PermKind
  keys : List Bytes
deriving DecidableEq, Repr

/-- `PermissionKind::from(char)` on one byte (non-ASCII characters also map to `Read`) -/
def PermKind.ofByte (c : Nat) : PermKind :=
  if c = 114 then .read else if c = 119 then .write else if c = 105 then .increment
  else if c = 120 then .remove else .read

def PermKind.toByte : PermKind → Nat
  | .read => 114 | .write => 119 | .increment => 105 | .remove => 120

/-- number of `char`s of a UTF-8 byte string: bytes that are not continuation bytes -/
def utf8Chars (s : Bytes) : Bytes := s.filter (fun b => !(128 ≤ b && b < 192))

/-- `Permission::from(&str)` -/
def Permission.parse (s : Bytes) : Permission :=
  match Bytes.splitn 32 2 s with
  | [k] => { kinds := (utf8Chars k).map PermKind.ofByte, keys := [] }
  | [k, ks] => { kinds := (utf8Chars k).map PermKind.ofByte, keys := (Bytes.splitAll 44 ks).filter (fun p => !p.isEmpty) }   -- an empty piece is no pattern
  | _ => { kinds := [.read], keys := [] }

/-- `Permission::permissions_from_str` -/
def Permission.parseList (s : Bytes) : List Permission := (Bytes.splitAll 124 s).map Permission.parse

/-- `Display for Permission` -/
def Permission.render (p : Permission) : Bytes :=
  p.kinds.map PermKind.toByte ++ [32] ++ Bytes.join [44] p.keys

/-- `Permission::permissions_to_str_value` -/
def Permission.renderList (ps : List Permission) : Bytes := Bytes.join [124] (ps.map Permission.render)

inductive Request
  | setPermissions (user : Bytes) (perms : List Permission)
  | get (key : Bytes)
  | getSafe (key : Bytes)
  | remove (key : Bytes)
  | replicateRemove (db key : Bytes)
  | set (key value : Bytes) (version : Int)
  | increment (key : Bytes) (inc : Int)
  | replicateIncrement (db key : Bytes) (inc : Int)
  | replicateSet (db key value : Bytes) (version : Int)
  | watch (key : Bytes)
  | unwatch (key : Bytes)
  | unwatchAll
  | auth (user password : Bytes)
  | createDb (token name : Bytes) (strategy : Strategy)
  | createUser (token userName : Bytes)
  | useDb (token name : Bytes) (userName : Option Bytes)
  | snapshot (reclaim : Bool) (dbNames : List Bytes)
  | replicateSnapshot (reclaim : Bool) (dbNames : List Bytes)
  | leave (name : Bytes)
  | replicateLeave (name : Bytes)
  | join (name : Bytes)
  | replicateJoin (name : Bytes)
  | setPrimary (name : Bytes)
  | setSecoundary (name : Bytes)
  | replicateSince (nodeName : Bytes) (startAt : Nat)
  | clusterState
  | metricsState
  | electionWin
  | election (id : Nat) (nodeName : Bytes)
  | electionActive (nodeName : Bytes)
  | keys (pattern : Bytes)
  | replicateRequest (requestStr : Bytes) (opId : Nat)
  | acknowledge (opId : Nat) (serverName : Bytes)
  | debug (command : Bytes)
  | listCommands
  | arbiter
  | resolve (opId : Nat) (dbName key value : Bytes) (version : Int)
deriving DecidableEq, Repr

def Strategy.ofBytes (s : Bytes) : Strategy :=
  if s = b!"arbiter" then .arbiter else if s = b!"newer" then .newer else .none

def Strategy.toBytes : Strategy → Bytes
  | .none => b!"none" | .newer => b!"newer" | .arbiter => b!"arbiter"

abbrev PResult := Except Bytes Request

def noNl (s : Bytes) : Bytes := Bytes.dropByte 10 s

/-- version field: `i32::from_str_radix(.., 10)` falling back to -1 -/
def parseVersionField (s : Bytes) : Int := (Bytes.parseI32 (noNl s)).getD (-1)
def parseIncField (s : Bytes) : Int := (Bytes.parseI32 (noNl s)).getD 1

/-- the sub-parsers receive what is left of `splitn(3, " ")` after the command word -/
def parseArgs (cmd : Bytes) (args : List Bytes) : PResult :=
  let a0 := args[0]?
  let a1 := args[1]?
  if cmd = b!"ack" then
    match a0.bind Bytes.parseU64 with
    | none => .error b!"Invalid request Id"
    | some id =>
      let name := a1.getD []
      if name = [] then .error b!"Invalid server name" else .ok (.acknowledge id name)
  else if cmd = b!"arbiter" then .ok .arbiter
  else if cmd = b!"auth" then .ok (.auth (a0.getD []) (noNl (a1.getD [])))
  else if cmd = b!"cluster-state" then .ok .clusterState
  else if cmd = b!"create-db" then
    match a1 with
    | none => .error b!"create-db must be followed by a token"
    | some rest =>
      let r := Bytes.splitn 32 2 rest
      let token := noNl (r[0]?.getD [])
      let strat := match r[1]? with | some s => noNl s | none => b!"none"
      .ok (.createDb token (a0.getD []) (Strategy.ofBytes strat))
  else if cmd = b!"create-user" then .ok (.createUser (noNl (a1.getD [])) (a0.getD []))
  else if cmd = b!"debug" then
    match a0 with
    | some c => .ok (.debug c)
    | none => .error b!"command is mandatory"
  else if cmd = b!"election" then
    match a0 with
    | some w =>
      if w = b!"win" then .ok .electionWin
      else if w = b!"candidate" then
        match a1 with
        | none => .error b!"candidate must contain process id and server name"
        | some rest =>
          let r := Bytes.splitn 32 2 rest
          match (r[0]?).bind Bytes.parseU128 with
          | none => .error b!"candidate process id must be a number"
          | some id => .ok (.election id (match r[1]? with | some n => noNl n | none => b!"no-server"))
      else .ok (.electionActive (a1.getD b!"no-server"))
    | none => .ok (.electionActive b!"no-server")
  else if cmd = b!"get" then
    match a0 with | some k => .ok (.get (noNl k)) | none => .error b!"get must contain a key"
  else if cmd = b!"get-safe" then
    match a0 with | some k => .ok (.getSafe (noNl k)) | none => .error b!"get-safe must contain a key"
  else if cmd = b!"increment" then
    .ok (.increment (a0.getD []) (match a1 with | some v => parseIncField v | none => 1))
  else if cmd = b!"join" then
    match a0 with | some k => .ok (.join (noNl k)) | none => .error b!"join must contain a name"
  else if cmd = b!"keys" ∨ cmd = b!"ls" then .ok (.keys (match a0 with | some p => noNl p | none => []))
  else if cmd = b!"leave" then
    match a0 with | some k => .ok (.leave (noNl k)) | none => .error b!"leave must contain a name"
  else if cmd = b!"metrics-state" then .ok .metricsState
  else if cmd = b!"remove" then .ok (.remove (a0.getD []))
  else if cmd = b!"replicate" then
    match a1 with
    | none => .error b!"no command sent"
    | some cv =>
      let c := Bytes.splitn 32 3 cv
      let name := noNl (c[0]?.getD [])
      let version := match c[1]? with | some v => parseVersionField v | none => -1
      let value := noNl (c[2]?.getD [])
      .ok (.replicateSet (a0.getD []) name value version)
  else if cmd = b!"replicate-increment" then
    match a0 with
    | none => .error b!"replicate-snapshot must contain a db name"
    | some db =>
      match a1 with
      | none => .error b!"replicate-increment must be followed by a key"
      | some rest =>
        let r := Bytes.splitn 32 2 rest
        .ok (.replicateIncrement (noNl db) (r[0]?.getD []) (match r[1]? with | some v => parseIncField v | none => 1))
  else if cmd = b!"replicate-join" then
    match a0 with | some k => .ok (.replicateJoin (noNl k)) | none => .error b!"join must contain a name"
  else if cmd = b!"replicate-leave" then
    match a0 with | some k => .ok (.replicateLeave (noNl k)) | none => .error b!"leave must contain a name"
  else if cmd = b!"replicate-remove" then
    .ok (.replicateRemove (a0.getD []) (noNl (a1.getD [])))
  else if cmd = b!"replicate-since" then
    match a0 with
    | none => .error b!"replicate-since must contain a node name"
    | some n =>
      match a1 with
      | none => .error b!"replicate-since must contain a start at"
      | some s =>
        match Bytes.parseU64 (noNl s) with
        | some v => .ok (.replicateSince (noNl n) v)
        | none => .error b!"replicate-since start_at must be a u64"
  else if cmd = b!"replicate-snapshot" then
    match a0 with
    | none => .error b!"replicate-snapshot must contain a db name"
    | some db =>
      let reclaim := match a1 with | some r => decide (noNl r = b!"true") | none => false
      .ok (.replicateSnapshot reclaim (Bytes.splitAll 124 (noNl db)))
  else if cmd = b!"resolve" then
    match a0 with
    | none => .error b!"opp id mandatory"
    | some ids =>
      match Bytes.parseU64 ids with
      | none => .error b!"Invalid opp_id"
      | some id =>
        match a1 with
        | none => .error b!"resoved must be followed by db_name, key version and value"
        | some rest =>
          let r := Bytes.splitn 32 4 rest
          match r[0]?, r[1]? with
          | some db, some key =>
            let version := match r[2]? with | some v => parseVersionField v | none => -1
            match r[3]? with
            | some value => .ok (.resolve id (noNl db) (noNl key) (noNl value) version)
            | none => .error b!"set-safe must be followed by a key"
          | some _, none => .error b!"key must be provided"
          | none, _ => .error b!"db_name must be provided"
  else if cmd = b!"rp" then
    match a0.bind Bytes.parseU64 with
    | none => .error b!"Invalid request Id"
    | some id =>
      let rs := a1.getD []
      if rs = [] then .error b!"Invalid replication request str" else .ok (.replicateRequest rs id)
  else if cmd = b!"set" then
    .ok (.set (a0.getD []) (match a1 with | some v => noNl v | none => []) (-1))
  else if cmd = b!"set-primary" then
    match a0 with | some k => .ok (.setPrimary (noNl k)) | none => .error b!"set-primary must contain a name"
  else if cmd = b!"set-safe" then
    match a1 with
    | none => .error b!"set-safe must be followed by a version and key"
    | some rest =>
      let r := Bytes.splitn 32 2 rest
      let version := match r[0]? with | some v => parseVersionField v | none => -1
      match r[1]? with
      | some value => .ok (.set (a0.getD []) (noNl value) version)
      | none => .error b!"set-safe must be followed by a key"
  else if cmd = b!"set-secoundary" then
    match a0 with | some k => .ok (.setSecoundary (noNl k)) | none => .error b!"set-secoundary must contain a name"
  else if cmd = b!"snapshot" then
    let reclaim := a0.getD b!"false"
    let dbs := (Bytes.splitAll 124 (a1.getD [])).filter (fun a => a != [])
    .ok (.snapshot (decide (reclaim = b!"true")) dbs)
  else if cmd = b!"unwatch" then
    match a0 with | some k => .ok (.unwatch (noNl k)) | none => .error b!"unwatch must contain a key"
  else if cmd = b!"unwatch-all" then .ok .unwatchAll
  else if cmd = b!"use" ∨ cmd = b!"use-db" then
    match a1 with
    | none => .error b!"set-safe must be followed by a version and key"
    | some rest =>
      let r := Bytes.splitn 32 2 rest
      let tokenOrUser := noNl (r[0]?.getD [])
      match r[1]? with
      | some token => .ok (.useDb token (a0.getD []) (some tokenOrUser))
      | none => .ok (.useDb tokenOrUser (a0.getD []) none)
  else if cmd = b!"watch" then
    match a0 with | some k => .ok (.watch (noNl k)) | none => .error b!"watch must contain a key"
  else if cmd = b!"list-commands" then .ok .listCommands
  else if cmd = b!"set-permissions" then
    match a0 with
    | none => .error b!"user is mandatory"
    | some user =>
      match a1 with
      | none => .error b!"permission list is mandatory"
      | some pl => .ok (.setPermissions user (Permission.parseList pl))
  else .error (b!"unknown command: " ++ cmd)

/-- `Request::parse` -/
def Request.parse (input : Bytes) : PResult :=
  match Bytes.splitn 32 3 (Bytes.trimEnd 59 input) with
  | [] => .error b!"empty command"
  | cmd :: args => if cmd = [] then .error b!"empty command" else parseArgs cmd args

end Nun
