import NunVerif.Model.Repl
/-
  The replication supervisor (`start_replication_supervisor`): one message of the supervisor
  channel per step — cluster membership, the connections a node opens to its peers, and the
  resynchronisation burst (`get_pendding_opps_since`).  What leaves the node is listed as effects:
  a connection to open, or a line queued on the connection to a member.
-/
namespace Nun

inductive SupEff
  | link (to : Bytes) (isPrimary : Bool)     -- start_replication(to, …, is_primary)
  | send (to : Bytes) (line : Bytes)         -- a line queued on the connection to member `to`
  | repl (line : Bytes)                      -- replication channel of the node itself
deriving Repr, DecidableEq

def Node.hasMember (n : Node) (name : Bytes) : Bool := (AL.get? n.members name).isSome

/-- `add_cluster_member`: a new primary demotes every other member -/
def Node.addMember (n : Node) (m : Member) : Node :=
  let ms := if m.role = .primary then n.members.map (fun (k, x) => (k, { x with role := Role.secoundary })) else n.members
  { n with members := AL.put ms m.name m }

def Node.removeMember (n : Node) (name : Bytes) : Node := { n with members := AL.erase n.members name }

/-- `send_cluster_state_to_the_new_member`: the new member hears about every secondary, every
connected secondary hears about the new member (iteration in member order) -/
def Node.sendClusterState (n : Node) (newName : Bytes) : List SupEff :=
  n.members.flatMap fun (_, m) =>
    if m.role = .secoundary then
      [SupEff.send newName (b!"replicate-join " ++ m.name)] ++
      (if m.connected then [SupEff.send m.name (b!"replicate-join " ++ newName)] else [])
    else []

/-- the lines of a resynchronisation burst (no version field: the recorded format finding of C05) -/
def syncCreateDbLine (name token : Bytes) : Bytes := b!"create-db " ++ name ++ [32] ++ token
def syncSetLine (db key value : Bytes) : Bytes := b!"replicate " ++ db ++ [32] ++ key ++ [32] ++ value
def syncRemoveLine (db key : Bytes) : Bytes := b!"replicate-remove " ++ db ++ [32] ++ key
def syncSnapshotLine (db : Bytes) : Bytes := b!"replicate-snapshot " ++ db

def createDbCmd (db : Db) : Bytes := syncCreateDbLine db.name (db.getKV Gen.tokenKey).1

/-- `get_full_sync_opps` (databases and keys in model order; the real order is a hash order) -/
def Node.fullSyncOps (n : Node) : List Bytes :=
  n.dbs.flatMap fun (_, db) =>
    if db.name = Gen.adminDb then []
    else
      [createDbCmd db] ++
      (db.map.filterMap fun (k, e) =>
        if k = Gen.tokenKey ∨ k = Gen.connectionsKey then none
        else some (syncSetLine db.name k e.value)) ++
      [syncSnapshotLine db.name]

inductive SyncOut
  | ok (lines : List Bytes)
  | panic
deriving Repr

/-- `get_pendding_opps_since_from_sync`: one command per (db, key) touched since `since`, in log
position order, carrying the CURRENT value; a record that does not decode panics -/
def Node.oplogSyncOps (n : Node) (m : Meta) (since : Nat) : SyncOut :=
  let recs := readAll m.oplog.cur m.oplog.rot since
  let sorted := recs.foldr (fun x acc =>
    let rec ins : List ((Nat × Nat) × (Nat × Nat × Nat)) → List ((Nat × Nat) × (Nat × Nat × Nat))
      | [] => [x]
      | y :: ys => if y.2.2.2 < x.2.2.2 then y :: ins ys else x :: y :: ys
    ins acc) []
  sorted.foldl (fun (acc : SyncOut) (r : (Nat × Nat) × (Nat × Nat × Nat)) =>
    match acc with
    | .panic => .panic
    | .ok ls =>
      let dbId := r.1.1; let keyId := r.1.2; let kind := r.2.1
      match AL.get? n.idName dbId with
      | none => .panic
      | some dbName =>
        let keyOf : Option Bytes := (m.keysMap.find? fun p => p.2 == keyId).map (·.1)
        match kind with
        | 0 =>
          match keyOf, n.db? dbName with
          | some key, some db =>
            .ok (ls ++ [syncSetLine dbName key (db.getKV key).1])
          | _, _ => .panic
        | 1 =>
          match keyOf with
          | some key => .ok (ls ++ [syncRemoveLine dbName key])
          | none => .panic
        | 2 =>
          match n.db? dbName with
          | some db => .ok (ls ++ [createDbCmd db])
          | none => .panic
        | _ => .ok (ls ++ [syncSnapshotLine dbName])) (.ok [])

def Node.pendingOpsSince (n : Node) (m : Meta) (since : Nat) : SyncOut :=
  if since = 0 then .ok n.fullSyncOps else n.oplogSyncOps m since

inductive SupOut
  | ok (effs : List SupEff)
  | panic (why : Bytes)
deriving Repr

/-- one message of the supervisor channel -/
def Node.supStep (n : Node) (m : Meta) (msg : Bytes) : Node × SupOut :=
  match Bytes.splitn 32 2 msg with
  | [cmd, name] =>
    if cmd = b!"secoundary" then
      if !n.hasMember name then
        let effs := n.sendClusterState name ++ [.send name (b!"replicate-join " ++ name)]
        (n.addMember { name, role := .secoundary, connected := true }, .ok (effs ++ [.link name true]))
      else (n, .panic b!"Re-adding a secoundary that alrady exists!!!")
    else if cmd = b!"leave" then
      if name != n.addr then (n.removeMember name, .ok []) else (n, .ok [])
    else if cmd = b!"primary" then
      if !n.hasMember name then
        let effs := n.sendClusterState name
        (n.addMember { name, role := .primary, connected := true }, .ok (effs ++ [.link name false]))
      else
        let c := match AL.get? n.members name with | some x => x.connected | none => false
        (n.addMember { name, role := .primary, connected := c }, .ok [])
    else if cmd = b!"new-secoundary" then
      if !n.hasMember name then
        let effs := n.sendClusterState name
        (n.addMember { name, role := .secoundary, connected := true }, .ok (effs ++ [.link name false]))
      else (n, .ok [])
    else if cmd = b!"replicate-since-to" then
      match Bytes.splitn 32 2 name with
      | [who, sinceStr] =>
        match Bytes.parseU64 sinceStr with
        | none => (n, .panic b!"start_at does not parse")
        | some since =>
          match AL.get? n.members who with
          | some mem =>
            match n.pendingOpsSince m since with
            | .ok ls => (n, .ok (if mem.connected then ls.map (SupEff.send who) else []))
            | .panic => (n, .panic b!"oplog record does not decode")
          | none => (n, .ok [])
      | _ => (n, .panic b!"replicate-since-to without a time")
    else if cmd = b!"election-win" then
      let n := n.addMember { name := n.addr, role := .primary, connected := false }
      let (n, evs) := n.replicateWeb (b!"set-primary " ++ n.addr)
      (n, .ok (evs.filterMap fun e => match e with | .repl l => some (SupEff.repl l) | _ => none))
    else (n, .ok [])
  | _ => (n, .panic b!"supervisor message without a name")

end Nun
