import NunVerif.Model.Session
import NunVerif.Model.Oplog
/-
  The replication loop (`start_replication_thread`) — one message of the replication channel per
  step: oplog record, key-id registration with the oplog-valid flag, fan-out by role — the key-map /
  flag files written by `snapshot_keys`, and what a start-up does with them.
-/
namespace Nun

/-- node state that lives next to `Node` for the oplog / metadata machinery -/
structure Meta where
  oplog : OplogFs := {}
  keysMap : List (Bytes × Nat) := []        -- in memory: key ↦ id
  valid : Bool := true                      -- in memory: is_oplog_valid
  flagFile : Option Nat := none             -- `is-oplog.valid` (one byte); `none` = missing / empty
  keysFile : Option (List (Bytes × Nat)) := none   -- `keys-nun.keys` (bincode of the map)
deriving Repr, Inhabited

/-- `generate_key_id` + `invalidate_oplog` -/
def Meta.keyId (m : Meta) (key : Bytes) : Meta × Nat :=
  match AL.get? m.keysMap key with
  | some id => (m, id)
  | none =>
    let id := m.keysMap.length
    let m := { m with keysMap := m.keysMap ++ [(key, id)] }
    if m.valid then ({ m with valid := false, flagFile := some 0 }, id) else (m, id)

def singleLogBytes : Nat := 250

/-- `Oplog::try_write_op_log` on the loop's long-lived stream -/
def Meta.writeOp (m : Meta) (r : OpRec) : Meta := { m with oplog := m.oplog.append singleLogBytes r false }

inductive LoopOut
  | ok (evs : List Ev)
  | panic (why : Bytes)
deriving Repr

/-- `replicate_message_to_secoundary` / `replicate_message_to_all`: register the pending
acknowledgement and queue the line for every target that has a live connection -/
def Node.fanOut (n : Node) (opId : Nat) (reqStr : Bytes) (targets : List (Bytes × Member)) : Node × List Ev :=
  targets.foldl (fun (acc : Node × List Ev) (t : Bytes × Member) =>
    let (nn, wire) := acc.1.registerPending opId reqStr t.1
    (nn, acc.2 ++ (if t.2.connected then [Ev.toMember t.2.name wire] else []))) (n, [])

/-- the sending half of the loop: nothing on a secondary; every other secondary on a primary;
every other member while starting up. `ok = false`: the oplog write failed (the loop panics). -/
def Node.replSend (n : Node) (ok : Bool) (opId : Nat) (reqStr : Bytes) : Node × LoopOut :=
  match n.role with
  | .secoundary => (n, .ok [])
  | .primary =>
    if !ok then (n, .panic b!"Error trying to replicating message") else
    let (n', evs) := n.fanOut opId reqStr (n.members.filter fun (name, mem) => mem.role = .secoundary && name != n.addr)
    (n', .ok evs)
  | .startingUp =>
    if !ok then (n, .panic b!"Error trying to replicating message") else
    let (n', evs) := n.fanOut opId reqStr (n.members.filter fun (name, _) => name != n.addr)
    (n', .ok evs)

/-- one message of the replication channel (`rp <op id> <request>`) -/
def Node.replStep (n : Node) (m : Meta) (line : Bytes) : Node × Meta × LoopOut :=
  match Request.parse line with
  | .ok (.replicateRequest reqStr opId) =>
    match Request.parse reqStr with
    | .error _ => (n, m, .panic b!"inner request does not parse")
    | .ok req =>
      let dbId (name : Bytes) : Option Nat := (n.db? name).map (·.id)
      -- the oplog part
      let wr : Option (Meta) × Bool :=   -- (new meta, ok?) ; none = nothing to write
        match req with
        | .createDb _ name _ =>
          match dbId name with
          | some d => (some (m.writeOp { t := opId, k := 18446744073709551615, d := d, o := 2 }), true)
          | none => (none, false)
        | .replicateSnapshot _ names =>
          names.foldl (fun (acc : Option Meta × Bool) name =>
            match acc.2, dbId name with
            | true, some d => (some ((acc.1.getD m).writeOp { t := opId, k := 18446744073709551614, d := d, o := 3 }), true)
            | true, none => (acc.1, false)
            | false, some d => (some ((acc.1.getD m).writeOp { t := opId, k := 18446744073709551614, d := d, o := 3 }), false)
            | false, none => (acc.1, false)) (none, true)
        | .replicateSet db key _ _ =>
          let (m1, kid) := m.keyId key
          match dbId db with
          | some d => (some (m1.writeOp { t := opId, k := kid, d := d, o := 0 }), true)
          | none => (some m1, false)
        | .replicateIncrement db key _ =>
          let (m1, kid) := m.keyId key
          match dbId db with
          | some d => (some (m1.writeOp { t := opId, k := kid, d := d, o := 0 }), true)
          | none => (some m1, false)
        | .replicateRemove db key =>
          let (m1, kid) := m.keyId key
          match dbId db with
          | some d => (some (m1.writeOp { t := opId, k := kid, d := d, o := 1 }), true)
          | none => (some m1, false)
        | _ => (none, true)
      let m' := wr.1.getD m
      match n.replSend wr.2 opId reqStr with
      | (n', out) => (n', m', out)
  | _ => (n, m, .panic b!"Unknown message")

/-- `snapshot_keys`: rewrite the key map and set the flag when the log is marked invalid -/
def Meta.snapshotKeys (m : Meta) : Meta :=
  if !m.valid then { m with keysFile := some m.keysMap, valid := true, flagFile := some 1 } else m

/-- what `is_oplog_valid` reads from the flag file (missing or empty reads as valid) -/
def Meta.diskValid (m : Meta) : Bool := match m.flagFile with | some b => b == 1 | none => true

/-- start-up (`src/bin/main.rs`): under a valid flag load the key map and keep the log; under an
invalid one delete the oplog files, the keys file and the flag, write the flag back as 0 and start
with an empty key map -/
def Meta.restart (m : Meta) : Meta :=
  if m.diskValid then { m with keysMap := m.keysFile.getD [], valid := true }
  else { m with keysMap := [], valid := false, flagFile := some 0, oplog := {}, keysFile := none }

/-! ### The machine at the granularity of single file writes (crash points, C16) -/

/-- operations on the metadata; a kill between two writes is a `restart` taken at that point -/
inductive MOp
  | register (key : Bytes)                  -- generate_key_id (+ flag := 0 when it was valid)
  | write (key : Bytes) (t d o : Nat)       -- register + oplog append: one data message
  | log (r : OpRec)                         -- oplog append without a key (create-db, snapshot)
  | writeKeysFile                           -- first half of snapshot_keys
  | snapshotKeys
  | restart
  | restartCrashed (ks : List Nat)          -- successive start-ups, the i-th killed after ks[i] of its writes, then a complete start-up
deriving Repr

/-- the writes that reach the disk, in program order -/
inductive XOp
  | flag (b : Nat)
  | append (r : OpRec)
  | keys (km : List (Bytes × Nat))
  | rmOplog
  | rmKeys
  | rmFlag
deriving Repr

/-- effect of one write on the files (the in-memory fields are untouched) -/
def Meta.applyX (m : Meta) : XOp → Meta
  | .flag b => { m with flagFile := some b }
  | .append r => m.writeOp r
  | .keys km => { m with keysFile := some km }
  | .rmOplog => { m with oplog := {} }
  | .rmKeys => { m with keysFile := none }
  | .rmFlag => { m with flagFile := none }

/-- the writes of a discarding start-up (`clean_op_log_metadata_files`, then the flag) -/
def Meta.restartTrace (m : Meta) : List XOp :=
  if m.diskValid then [] else [.rmOplog] ++ (if m.keysFile.isSome then [.rmKeys] else []) ++ [.rmFlag, .flag 0]

/-- the files after a start-up killed after `k` of its writes -/
def Meta.crashStart (m : Meta) (k : Nat) : Meta := (m.restartTrace.take k).foldl Meta.applyX m

def Meta.restartCrashed (m : Meta) (ks : List Nat) : Meta := (ks.foldl Meta.crashStart m).restart

def Meta.writeKeysFile (m : Meta) : Meta := if !m.valid then { m with keysFile := some m.keysMap } else m

def Meta.step (m : Meta) : MOp → Meta
  | .register key => (m.keyId key).1
  | .write key t d o => let (m1, kid) := m.keyId key; m1.writeOp { t, k := kid, d, o }
  | .log r => m.writeOp r
  | .writeKeysFile => m.writeKeysFile
  | .snapshotKeys => m.snapshotKeys
  | .restart => m.restart
  | .restartCrashed ks => m.restartCrashed ks

/-- the writes one operation performs, in program order -/
def Meta.trace (m : Meta) : MOp → List XOp
  | .register key => if (AL.get? m.keysMap key).isNone && m.valid then [.flag 0] else []
  | .write key t d o => (if (AL.get? m.keysMap key).isNone && m.valid then [.flag 0] else []) ++ [.append { t, k := (m.keyId key).2, d, o }]
  | .log r => [.append r]
  | .writeKeysFile => if !m.valid then [.keys m.keysMap] else []
  | .snapshotKeys => if !m.valid then [.keys m.keysMap, .flag 1] else []
  | .restart => m.restartTrace
  | .restartCrashed _ => []   -- its crash points are more entries of the list

/-- one message of the replication channel as operations of the machine -/
def Node.replMOps (n : Node) (line : Bytes) : List MOp :=
  match Request.parse line with
  | .ok (.replicateRequest reqStr opId) =>
    match Request.parse reqStr with
    | .error _ => []
    | .ok req =>
      let dbId (name : Bytes) : Option Nat := (n.db? name).map (·.id)
      match req with
      | .createDb _ name _ => match dbId name with | some d => [.log { t := opId, k := 18446744073709551615, d := d, o := 2 }] | none => []
      | .replicateSnapshot _ names => names.filterMap fun name => (dbId name).map fun d => .log { t := opId, k := 18446744073709551614, d := d, o := 3 }
      | .replicateSet db key _ _ => match dbId db with | some d => [.write key opId d 0] | none => [.register key]
      | .replicateIncrement db key _ => match dbId db with | some d => [.write key opId d 0] | none => [.register key]
      | .replicateRemove db key => match dbId db with | some d => [.write key opId d 1] | none => [.register key]
      | _ => []
  | _ => []

end Nun
