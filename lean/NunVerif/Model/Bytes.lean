/-
  Byte strings. Rust `String`s are valid UTF-8 and every string operation nun-db uses on the
  request path (`len`, `starts_with`, `ends_with`, `contains`, `splitn(' ')`, `replace`,
  `trim_matches`, `sort`) is a byte-level operation, so text is a list of byte values.
  Bytes are `Nat`s (the driver only ever supplies values < 256; the theorems hold for all lists).
-/
namespace Nun

abbrev Bytes := List Nat

namespace Bytes

def sp : Nat := 32
def nl : Nat := 10

/-- split at the first occurrence of byte `c` -/
def splitAt1 (c : Nat) : Bytes → Bytes × Option Bytes
  | [] => ([], none)
  | x :: xs =>
    if x = c then ([], some xs)
    else
      let r := splitAt1 c xs
      (x :: r.1, r.2)

/-- Rust `s.splitn(n, c)`: at most `n` pieces, the last one holds the remainder. -/
def splitn (c : Nat) : Nat → Bytes → List Bytes
  | 0, _ => []
  | 1, s => [s]
  | n + 2, s =>
    match splitAt1 c s with
    | (a, none) => [a]
    | (a, some r) => a :: splitn c (n + 1) r

/-- Rust `s.split(c)`: all pieces (`""` gives one empty piece). -/
def splitAll (c : Nat) (s : Bytes) : List Bytes :=
  splitn c (s.length + 2) s

/-- `s.replace("\n", "")` and friends: drop every occurrence of one byte -/
def dropByte (c : Nat) (s : Bytes) : Bytes := s.filter (fun x => x != c)

def dropWhileEq (c : Nat) : Bytes → Bytes
  | [] => []
  | x :: xs => if x = c then dropWhileEq c xs else x :: xs

/-- `trim_end_matches(c)` -/
def trimEnd (c : Nat) (s : Bytes) : Bytes := (dropWhileEq c s.reverse).reverse

/-- `trim_matches(c)` -/
def trimBoth (c : Nat) (s : Bytes) : Bytes := trimEnd c (dropWhileEq c s)

def isWs (x : Nat) : Bool := x = 32 || (9 ≤ x && x ≤ 13)

def dropWhileWs : Bytes → Bytes
  | [] => []
  | x :: xs => if isWs x then dropWhileWs xs else x :: xs

/-- `str::trim` restricted to ASCII white space (non-ASCII white space is outside the model) -/
def trimWs (s : Bytes) : Bytes := (dropWhileWs (dropWhileWs s).reverse).reverse

def startsWith : Bytes → Bytes → Bool
  | _, [] => true
  | [], _ :: _ => false
  | x :: xs, p :: ps => x = p && startsWith xs ps

def endsWith (s p : Bytes) : Bool := startsWith s.reverse p.reverse

/-- `s.contains(p)` (substring) -/
def contains : Bytes → Bytes → Bool
  | [], p => p.isEmpty
  | x :: xs, p => startsWith (x :: xs) p || contains xs p

/-- bytewise lexicographic `<` (Rust `String` ordering) -/
def lt : Bytes → Bytes → Bool
  | [], [] => false
  | [], _ :: _ => true
  | _ :: _, [] => false
  | x :: xs, y :: ys => x < y || (x = y && lt xs ys)

def insertSorted (k : Bytes) : List Bytes → List Bytes
  | [] => [k]
  | x :: xs => if lt x k then x :: insertSorted k xs else k :: x :: xs

/-- `Vec<String>::sort` -/
def sort (l : List Bytes) : List Bytes := l.foldr insertSorted []

/-- `v.join(sep)` -/
def join (sep : Bytes) : List Bytes → Bytes
  | [] => []
  | [x] => x
  | x :: y :: r => x ++ sep ++ join sep (y :: r)

def isDigit (x : Nat) : Bool := 48 ≤ x && x ≤ 57

def digitsVal : Bytes → Nat → Nat
  | [], acc => acc
  | x :: xs, acc => digitsVal xs (acc * 10 + (x - 48))

/-- unsigned decimal: non-empty, all ASCII digits -/
def parseNat (s : Bytes) : Option Nat :=
  if s.isEmpty then none
  else if s.all isDigit then some (digitsVal s 0) else none

/-- `str::parse::<uN>()`: optional leading `+`, digits, value `< bound` -/
def parseUnsigned (bound : Nat) (s : Bytes) : Option Nat :=
  let body := match s with
    | 43 :: r => r
    | _ => s
  match parseNat body with
  | some v => if v < bound then some v else none
  | none => none

def u64Bound : Nat := 18446744073709551616
def u128Bound : Nat := 340282366920938463463374607431768211456

def parseU64 (s : Bytes) : Option Nat := parseUnsigned u64Bound s
def parseU128 (s : Bytes) : Option Nat := parseUnsigned u128Bound s

def i32Max : Int := 2147483647
def i32Min : Int := -2147483648

def fitsI32 (v : Int) : Bool := i32Min ≤ v && v ≤ i32Max

/-- `i32::from_str_radix(s, 10)`: optional `+`/`-`, digits, in range -/
def parseI32 (s : Bytes) : Option Int :=
  match s with
  | 45 :: r =>
    match parseNat r with
    | some v => if fitsI32 (-(v : Int)) then some (-(v : Int)) else none
    | none => none
  | 43 :: r =>
    match parseNat r with
    | some v => if fitsI32 (v : Int) then some (v : Int) else none
    | none => none
  | _ =>
    match parseNat s with
    | some v => if fitsI32 (v : Int) then some (v : Int) else none
    | none => none

def natDigitsAux : Nat → Nat → Bytes → Bytes
  | 0, _, acc => acc
  | fuel + 1, n, acc =>
    if n < 10 then (48 + n) :: acc
    else natDigitsAux fuel (n / 10) ((48 + n % 10) :: acc)

/-- decimal rendering of a natural number -/
def ofNat (n : Nat) : Bytes := natDigitsAux (n + 1) n []

/-- decimal rendering of an integer (`{}` on `i32`) -/
def ofInt (i : Int) : Bytes :=
  if i < 0 then 45 :: ofNat (-i).toNat else ofNat i.toNat

end Bytes
end Nun
