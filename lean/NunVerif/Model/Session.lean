import NunVerif.Model.Exec
/-
  Transport-level session handling: disconnect sequences of the three transports
  (`tcp_ops::handle_client`, `ws_ops::on_close`, `http_ops::process_commands`), `Client::left`,
  and the HTTP reply assembler.
-/
namespace Nun

/-- `Client::left` -/
def Node.left (n : Node) (sid : Sid) : Node × List Ev :=
  match (n.session sid).db with
  | none => (n, [])
  | some d =>
    match n.db? d with
    | none => (n, [])
    | some db =>
      let db := { db with conns := db.conns - 1 }
      match n.setConnCounter db with
      | (n, db, evs) => (n.setDb db, evs)

/-- disconnect sequence shared by the transports: `unwatch-all`, (cluster member leave), `left` -/
def Node.close (n : Node) (sid : Sid) : Node × List Ev :=
  match n.exec sid b!"unwatch-all" with
  | (n, _, evs1) =>
    match n.left sid with
    | (n, evs2) => ({ n with sessions := AL.erase n.sessions sid }, evs1 ++ evs2)

/-- session id of the throw-away authenticated client `process_leave_request` uses -/
def fakeSid : Sid := 4000000000

/-- `tcp_ops::handle_client` at end of stream: like `close`, and a connection that had announced
itself as a cluster member (`set-primary` / `set-secoundary`) makes the node process `leave` /
`replicate-leave` for that member before the session is released -/
def Node.tcpClose (n : Node) (sid : Sid) : Node × List Ev :=
  match n.exec sid b!"unwatch-all" with
  | (n, _, evs1) =>
    let (n, evsM) : Node × List Ev :=
      match (n.session sid).member with
      | some (name, role) =>
        let cmd := (if role = .primary then b!"leave " else b!"replicate-leave ") ++ name
        match (n.setSession fakeSid { auth := true }).exec fakeSid cmd with
        | (n, _, evs) => ({ n with sessions := AL.erase n.sessions fakeSid }, evs)
      | none => (n, [])
    match n.left sid with
    | (n, evs2) => ({ n with sessions := AL.erase n.sessions sid }, evs1 ++ evsM ++ evs2)

def evForSid (sid : Sid) : Ev → Option Bytes
  | .push s l => if s = sid then some l else none
  | _ => none

def evNotForSid (sid : Sid) : Ev → Bool
  | .push s _ => s != sid
  | _ => true

/-- the reply entry of one executed statement: its error text, else the first line it pushed on
the request's own channel, else `empty` (whatever else it queued is discarded) -/
def httpEntry (sid : Sid) (r : Resp) (es : List Ev) : Bytes :=
  match r with
  | .error msg => msg
  | .versionError msg .. => msg
  | _ => ((es.filterMap (evForSid sid)).head?).getD b!"empty"

/-- `http_ops::process_commands` over the already `;`-split statements -/
def httpLoop (sid : Sid) : List Bytes → Node → List Bytes → List Ev → Node × List Bytes × List Ev
  | [], n, resps, evs => (n, resps, evs)
  | stmt :: rest, n, resps, evs =>
    let c := Bytes.trimWs stmt
    if c = [] then httpLoop sid rest n resps evs
    else
      match n.exec sid c with
      | (n, r, es) => httpLoop sid rest n (resps ++ [httpEntry sid r es]) (evs ++ es.filter (evNotForSid sid))

/-- one HTTP request: fresh session, statements, disconnect; reply = entries joined by `;` -/
def Node.http (n : Node) (sid : Sid) (body : Bytes) : Node × Bytes × List Ev :=
  let n := n.setSession sid {}
  match httpLoop sid (Bytes.splitAll 59 body) n [] [] with
  | (n, resps, evs) =>
    match n.close sid with
    | (n, evs2) => (n, Bytes.join [59] resps, evs ++ evs2.filter (evNotForSid sid))


/-! ### the per-request glue of the socket front ends -/

/-- what `tcp_ops::handle_client` writes on a new connection before it reads anything (a websocket and an http request get no greeting) -/
def tcpGreeting : Bytes := b!"ok \n"

/-- the line a socket front end sends after a request: `error <msg>` for an error — the websocket
handler also for a version error, the tcp loop answers that with `ok` — else `ok` -/
def transportTrailer (ws : Bool) : Resp → Bytes
  | .error msg => b!"error " ++ msg ++ b!" \n"
  | .versionError msg .. => if ws then b!"error " ++ msg ++ b!" \n" else b!"ok \n"
  | _ => b!"ok \n"

/-- what one request puts on the connection's own socket: everything it pushed on the session's
channel, in order, then the trailer (the trailer travels through the same channel) -/
def socketBytes (ws : Bool) (sid : Sid) (r : Resp) (es : List Ev) : Bytes :=
  (es.filterMap (evForSid sid)).foldr (· ++ ·) [] ++ transportTrailer ws r

/-- `tcp_ops::handle_client`, one line read from the socket (the line ends in `\n`, which the parser
removes): the bytes the connection receives, the events for everybody else -/
def Node.tcpLine (n : Node) (sid : Sid) (line : Bytes) : Node × Bytes × List Ev :=
  match n.exec sid (line ++ [10]) with
  | (n, r, es) => (n, socketBytes false sid r es, es.filter (evNotForSid sid))

/-- `ws_ops::on_message` over the pieces of one text message split at `;` (no trimming, no skipping:
an empty piece is a request of its own) -/
def wsLoop (sid : Sid) : List Bytes → Node → Bytes → List Ev → Node × Bytes × List Ev
  | [], n, out, evs => (n, out, evs)
  | piece :: rest, n, out, evs =>
    match n.exec sid piece with
    | (n, r, es) => wsLoop sid rest n (out ++ socketBytes true sid r es) (evs ++ es.filter (evNotForSid sid))

def Node.wsMessage (n : Node) (sid : Sid) (text : Bytes) : Node × Bytes × List Ev :=
  wsLoop sid (Bytes.splitAll 59 text) n [] []

def dedupConsecutive : List (Bytes × Bool) → List (Bytes × Bool)
  | [] => []
  | [x] => [x]
  | x :: y :: r => if x = y then dedupConsecutive (y :: r) else x :: dedupConsecutive (y :: r)

/-- `snapshot_all_pendding_dbs` (database part): dedup, then pop from the back of the queue.
`orders` gives, per database, the observed iteration order of its keys. -/
def Node.snapshotAll (n : Node) (orders : List (Bytes × List Bytes)) : Node :=
  let q := (dedupConsecutive n.toSnapshot).reverse
  let n := { n with toSnapshot := [] }
  q.foldl (fun n (name, reclaim) =>
    match n.db? name with
    | some db =>
      match snapshotDb db n.fs reclaim ((AL.get? orders name).getD []) n.clock with
      | (db', fs', clock') => { n.setDb db' with fs := fs', clock := clock' }
    | none => n) n

def stripSuffix (s suffix : Bytes) : Option Bytes :=
  if Bytes.endsWith s suffix then some (s.take (s.length - suffix.length)) else none

/-- process start: `Databases::new` + `load_all_dbs` over the surviving files.
`none` = the start-up panicked. -/
def Node.restart (n : Node) (fresh : Node) : Option Node :=
  let names := Bytes.sort (n.fs.filterMap fun (f, _) => stripSuffix f b!"-nun.data.keys")
  let start : Node := { fresh with fs := n.fs, role := n.role }
  names.foldl (fun (acc : Option Node) name =>
    match acc with
    | none => none
    | some m =>
      let (id, strat) := loadMeta m.fs name (nextDbId m.dbs)
      match loadDb m.fs name m.clock with
      | (.ok map, clock) =>
        let db : Db := { name, id, strategy := strat, map, watchers := [], conns := 0 }
        some ({ m with clock }.addDatabase db).1
      | (.panic _, _) => none) (some start)

end Nun
