import NunVerif.Model.Pending
import NunVerif.Proofs.AL
/-! Invariants of the pending-operation accounting (C15). -/
namespace Nun

inductive PEv
  | reg (op : Nat) (msg : Bytes) (s : Bytes)
  | ack (op : Nat) (s : Bytes)
deriving DecidableEq, Repr

def PMap.apply (m : PMap) : PEv → PMap
  | .reg op msg s => (m.register op msg s).1
  | .ack op s => (m.ack op s).1

def PMap.run (m : PMap) (es : List PEv) : PMap := es.foldl PMap.apply m

/-- spec: the set of (operation, node) pairs sent and not yet acknowledged -/
abbrev Outstanding := List (Nat × Bytes)

def Outstanding.apply (o : Outstanding) : PEv → Outstanding
  | .reg op _ s => if (op, s) ∈ o then o else (op, s) :: o
  | .ack op s => o.filter (fun x => x ≠ (op, s))

def Outstanding.run (o : Outstanding) (es : List PEv) : Outstanding := es.foldl Outstanding.apply o

/-- no (op, node) pair is registered again while it is still outstanding -/
def NoDupReg : Outstanding → List PEv → Prop
  | _, [] => True
  | o, .reg op msg s :: es => (op, s) ∉ o ∧ NoDupReg (o.apply (.reg op msg s)) es
  | o, .ack op s :: es => NoDupReg (o.apply (.ack op s)) es

instance decNoDupReg : ∀ (o : Outstanding) (es : List PEv), Decidable (NoDupReg o es)
  | _, [] => isTrue trivial
  | o, .reg op msg s :: es =>
    match (inferInstance : Decidable ((op, s) ∉ o)), decNoDupReg (o.apply (.reg op msg s)) es with
    | isTrue h1, isTrue h2 => isTrue ⟨h1, h2⟩
    | isFalse h1, _ => isFalse (fun h => h1 h.1)
    | _, isFalse h2 => isFalse (fun h => h2 h.2)
  | o, .ack op s :: es => decNoDupReg (o.apply (.ack op s)) es

def falses (r : List (Bytes × Bool)) : Nat := (r.filter (fun x => !x.2)).length

theorem falses_cons (k : Bytes) (b : Bool) (t : List (Bytes × Bool)) :
    falses ((k, b) :: t) = falses t + (if b = false then 1 else 0) := by
  cases b <;> simp [falses]

theorem falses_put (r : List (Bytes × Bool)) (s : Bytes) (b : Bool) :
    falses (AL.put r s b) + (if AL.get? r s = some false then 1 else 0)
      = falses r + (if b = false then 1 else 0) := by
  induction r with
  | nil => cases b <;> simp [falses, AL.put, AL.get?]
  | cons hd t ih =>
    obtain ⟨k0, b0⟩ := hd
    by_cases hk : k0 = s
    · subst hk
      simp only [AL.put, AL.get?, if_true, falses_cons]
      cases b <;> cases b0 <;> simp
    · simp only [AL.put, AL.get?, hk, if_false, falses_cons]
      omega

theorem falses_pos_of_get (r : List (Bytes × Bool)) (s : Bytes) (h : AL.get? r s = some false) :
    1 ≤ falses r := by
  have hm := AL.mem_of_get? r s false h
  unfold falses
  exact List.length_pos_of_mem (List.mem_filter.mpr ⟨hm, by simp⟩)

theorem exists_get_of_falses_pos (r : List (Bytes × Bool)) (hn : AL.NoDupKeys r) (h : 1 ≤ falses r) :
    ∃ s, AL.get? r s = some false := by
  unfold falses at h
  obtain ⟨⟨s, b⟩, hx⟩ := List.exists_mem_of_length_pos h
  have := List.mem_filter.mp hx
  simp at this
  obtain ⟨hmem, hb⟩ := this
  subst hb
  exact ⟨s, AL.get?_of_mem_noDup r s false hn hmem⟩

/-- counters never run ahead of registrations — holds for every event sequence -/
def WeakInv (m : PMap) : Prop :=
  ∀ op p, AL.get? m op = some p → p.ackCount + falses p.replications ≤ p.replicateCount

theorem weakInv_nil : WeakInv [] := by intro op p h; simp at h

theorem weakInv_apply (m : PMap) (e : PEv) (h : WeakInv m) : WeakInv (m.apply e) := by
  intro op' p' hp'
  cases e with
  | reg op msg s =>
    simp only [PMap.apply, PMap.register] at hp'
    rw [AL.get?_put] at hp'
    split at hp'
    · rename_i heq; subst heq
      simp only [Option.some.injEq] at hp'; subst hp'
      simp only [PendingOp.replicated]
      have hf := falses_put ((AL.get? m op).getD (PendingOp.fresh op msg)).replications s false
      cases hg : AL.get? m op with
      | none =>
        simp only [hg, Option.getD, PendingOp.fresh] at hf ⊢
        simp [falses, AL.put]
      | some p0 =>
        have h0 := h op p0 hg
        simp only [hg, Option.getD] at hf ⊢
        split at hf <;> simp at hf <;> omega
    · exact h op' p' hp'
  | ack op s =>
    simp only [PMap.apply, PMap.ack] at hp'
    cases hg : AL.get? m op with
    | none => simp only [hg] at hp'; exact h op' p' hp'
    | some p0 =>
      have h0 := h op p0 hg
      simp only [hg, PendingOp.ack] at hp'
      have hf := falses_put p0.replications s true
      cases hprev : AL.get? p0.replications s with
      | none =>
        simp only [hprev] at hp' hf
        rw [AL.get?_put] at hp'
        split at hp'
        · simp only [Option.some.injEq] at hp'; subst hp'; simp at hf ⊢; omega
        · exact h op' p' hp'
      | some b =>
        cases b with
        | true =>
          simp only [hprev] at hp' hf
          rw [AL.get?_put] at hp'
          split at hp'
          · simp only [Option.some.injEq] at hp'; subst hp'; simp at hf ⊢; omega
          · exact h op' p' hp'
        | false =>
          simp only [hprev] at hp' hf
          split at hp'
          · rw [AL.get?_erase] at hp'
            split at hp'
            · simp at hp'
            · exact h op' p' hp'
          · rw [AL.get?_put] at hp'
            split at hp'
            · simp only [Option.some.injEq] at hp'; subst hp'; simp at hf ⊢; omega
            · exact h op' p' hp'

theorem weakInv_run (es : List PEv) : ∀ m, WeakInv m → WeakInv (m.run es) := by
  induction es with
  | nil => intro m h; exact h
  | cons e es ih => intro m h; exact ih _ (weakInv_apply m e h)

end Nun

namespace Nun

/-- per-entry invariant under `NoDupReg` -/
structure EInv (op : Nat) (o : Outstanding) (p : PendingOp) : Prop where
  id : p.opId = op
  nodup : AL.NoDupKeys p.replications
  count : p.replicateCount = p.ackCount + falses p.replications
  mem : ∀ s, AL.get? p.replications s = some false ↔ (op, s) ∈ o
  pos : 1 ≤ falses p.replications

def MInv (m : PMap) (o : Outstanding) : Prop :=
  ∀ op, match AL.get? m op with
    | some p => EInv op o p
    | none => ∀ s, (op, s) ∉ o

theorem mInv_nil : MInv [] [] := by intro op; simp

theorem mem_apply_reg_other (o : Outstanding) (op op' : Nat) (msg s s' : Bytes) (h : op' ≠ op) :
    (op', s') ∈ o.apply (.reg op msg s) ↔ (op', s') ∈ o := by
  simp only [Outstanding.apply]; split <;> simp [h]

theorem mem_apply_ack_other (o : Outstanding) (op op' : Nat) (s s' : Bytes) (h : op' ≠ op) :
    (op', s') ∈ o.apply (.ack op s) ↔ (op', s') ∈ o := by
  simp [Outstanding.apply, h]

theorem eInv_congr {op : Nat} {o o' : Outstanding} {p : PendingOp}
    (hmem : ∀ s, (op, s) ∈ o' ↔ (op, s) ∈ o) (h : EInv op o p) : EInv op o' p :=
  { h with mem := fun s => (h.mem s).trans (hmem s).symm }

theorem mInv_reg (m : PMap) (o : Outstanding) (op : Nat) (msg s : Bytes)
    (h : MInv m o) (hnew : (op, s) ∉ o) : MInv (m.apply (.reg op msg s)) (o.apply (.reg op msg s)) := by
  intro op'
  by_cases hop : op' = op
  · subst hop
    have hm := h op'
    simp only [PMap.apply, PMap.register, AL.get?_put_same]
    have ho : ∀ s', (op', s') ∈ o.apply (.reg op' msg s) ↔ (s' = s ∨ (op', s') ∈ o) := by
      intro s'; simp [Outstanding.apply, hnew]
    cases hg : AL.get? m op' with
    | none =>
      simp only [hg] at hm
      simp only [Option.getD, PendingOp.fresh, PendingOp.replicated]
      refine ⟨rfl, ?_, ?_, ?_, ?_⟩
      · simp [AL.NoDupKeys, AL.put]
      · simp [falses, AL.put]
      · intro s'
        rw [ho]
        by_cases hs : s = s'
        · subst hs; simp [AL.put, AL.get?]
        · have hs' : ¬ s' = s := fun e => hs e.symm
          simp [AL.put, AL.get?, hs, hs', hm s']
      · simp [falses, AL.put]
    | some p0 =>
      simp only [hg] at hm
      simp only [Option.getD, PendingOp.replicated]
      have hnf : ¬ AL.get? p0.replications s = some false := fun e => hnew ((hm.mem s).mp e)
      have hf : falses (AL.put p0.replications s false) = falses p0.replications + 1 := by
        have := falses_put p0.replications s false
        simp only [hnf, if_false] at this; simpa using this
      refine ⟨hm.id, AL.noDupKeys_put _ _ _ hm.nodup, ?_, ?_, ?_⟩
      · have := hm.count; simp only []; omega
      · intro s'
        rw [ho, AL.get?_put]
        by_cases hs : s = s'
        · subst hs; simp
        · have hs' : ¬ s' = s := fun e => hs e.symm
          simp [hs, hs', hm.mem s']
      · show 1 ≤ falses (AL.put p0.replications s false); omega
  · have hne : ¬ op = op' := fun e => hop e.symm
    simp only [PMap.apply, PMap.register]
    rw [AL.get?_put_other _ _ hne]
    have hm := h op'
    cases hg : AL.get? m op' with
    | none =>
      simp only [hg] at hm ⊢
      intro s'; rw [mem_apply_reg_other _ _ _ _ _ _ hop]; exact hm s'
    | some p0 =>
      simp only [hg] at hm ⊢
      exact eInv_congr (fun s' => mem_apply_reg_other _ _ _ _ _ _ hop) hm

theorem mInv_ack (m : PMap) (o : Outstanding) (op : Nat) (s : Bytes)
    (h : MInv m o) : MInv (m.apply (.ack op s)) (o.apply (.ack op s)) := by
  intro op'
  have ho : ∀ s', (op, s') ∈ o.apply (.ack op s) ↔ ((op, s') ∈ o ∧ s' ≠ s) := by
    intro s'; simp [Outstanding.apply]
  by_cases hop : op' = op
  · subst hop
    have hm := h op'
    simp only [PMap.apply, PMap.ack]
    cases hg : AL.get? m op' with
    | none =>
      simp only [hg] at hm ⊢
      intro s'; rw [ho]; exact fun hh => hm s' hh.1
    | some p0 =>
      simp only [hg] at hm ⊢
      simp only [PendingOp.ack]
      have hf := falses_put p0.replications s true
      cases hprev : AL.get? p0.replications s with
      | some b =>
        cases b with
        | false =>
          simp only [hprev, if_true] at hf ⊢
          simp only [Bool.true_eq_false, if_false, Nat.add_zero] at hf
          have hmem' : ∀ s', AL.get? (AL.put p0.replications s true) s' = some false ↔ ((op', s') ∈ o ∧ s' ≠ s) := by
            intro s'
            rw [AL.get?_put]
            by_cases hs : s = s'
            · subst hs; simp
            · have hs' : ¬ s' = s := fun e => hs e.symm
              simp [hs, hs', hm.mem s']
          by_cases hfull : p0.replicateCount = p0.ackCount + 1
          · -- fully acknowledged: entry removed
            simp only [PendingOp.fullyAcked, decide_eq_true_eq]
            rw [if_pos hfull]
            simp only [AL.get?_erase_same]
            intro s'; rw [ho]; intro hh
            have := falses_pos_of_get _ s' ((hmem' s').mpr hh)
            have := hm.count
            omega
          · simp only [PendingOp.fullyAcked, decide_eq_true_eq]
            rw [if_neg hfull]
            simp only [AL.get?_put_same]
            refine ⟨hm.id, AL.noDupKeys_put _ _ _ hm.nodup, ?_, ?_, ?_⟩
            · have := hm.count; simp only []; omega
            · intro s'; rw [ho]; exact hmem' s'
            · have := hm.count; simp only []; omega
        | true =>
          simp only [hprev] at hf ⊢
          simp at hf
          rw [AL.get?_put_same]
          have hns : (op', s) ∉ o := fun hh => by
            have := (hm.mem s).mpr hh; rw [hprev] at this; simp at this
          refine ⟨hm.id, AL.noDupKeys_put _ _ _ hm.nodup, ?_, ?_, ?_⟩
          · have := hm.count; simp; omega
          · intro s'
            rw [ho, AL.get?_put]
            by_cases hs : s = s'
            · subst hs; simp [hns]
            · have hs' : ¬ s' = s := fun e => hs e.symm
              simp [hs, hs', hm.mem s']
          · have := hm.pos; simp; omega
      | none =>
        simp only [hprev] at hf ⊢
        simp at hf
        rw [AL.get?_put_same]
        have hns : (op', s) ∉ o := fun hh => by
          have := (hm.mem s).mpr hh; rw [hprev] at this; simp at this
        refine ⟨hm.id, AL.noDupKeys_put _ _ _ hm.nodup, ?_, ?_, ?_⟩
        · have := hm.count; simp; omega
        · intro s'
          rw [ho, AL.get?_put]
          by_cases hs : s = s'
          · subst hs; simp [hns]
          · have hs' : ¬ s' = s := fun e => hs e.symm
            simp [hs, hs', hm.mem s']
        · have := hm.pos; simp; omega
  · have hne : ¬ op = op' := fun e => hop e.symm
    have hm := h op'
    have hget : AL.get? (m.apply (.ack op s)) op' = AL.get? m op' := by
      simp only [PMap.apply, PMap.ack]
      cases hg : AL.get? m op with
      | none => rfl
      | some p0 =>
        simp only []
        split
        · split
          · exact AL.get?_erase_other _ hne
          · exact AL.get?_put_other _ _ hne
        · exact AL.get?_put_other _ _ hne
    rw [hget]
    cases hg : AL.get? m op' with
    | none =>
      simp only [hg] at hm ⊢
      intro s'; rw [mem_apply_ack_other _ _ _ _ _ hop]; exact hm s'
    | some p0 =>
      simp only [hg] at hm ⊢
      exact eInv_congr (fun s' => mem_apply_ack_other _ _ _ _ _ hop) hm

theorem mInv_run (es : List PEv) : ∀ m o, MInv m o → NoDupReg o es → MInv (m.run es) (o.run es) := by
  induction es with
  | nil => intro m o h _; exact h
  | cons e es ih =>
    intro m o h hn
    cases e with
    | reg op msg s =>
      simp only [NoDupReg] at hn
      exact ih _ _ (mInv_reg m o op msg s h hn.1) hn.2
    | ack op s =>
      simp only [NoDupReg] at hn
      exact ih _ _ (mInv_ack m o op s h) hn

end Nun
