import NunVerif.Model.Parse
/-
  The wire format of replication is lossless: what `Bytes.ofNat` / `Bytes.ofInt` print,
  `parseNat` / `parseU64` / `parseI32` read back; `splitn` finds the separators the printer put.
-/
namespace Nun
namespace Bytes

/-! ### decimal numbers -/

theorem natDigitsAux_acc (fuel n : Nat) (acc : Bytes) :
    natDigitsAux fuel n acc = natDigitsAux fuel n [] ++ acc := by
  induction fuel generalizing n acc with
  | zero => simp [natDigitsAux]
  | succ f ih =>
    unfold natDigitsAux
    split
    · simp
    · rw [ih (n / 10) ((48 + n % 10) :: acc), ih (n / 10) [48 + n % 10]]; simp

theorem natDigitsAux_fuel (f1 f2 n : Nat) (acc : Bytes) (h1 : n < f1) (h2 : n < f2) :
    natDigitsAux f1 n acc = natDigitsAux f2 n acc := by
  induction f1 generalizing f2 n acc with
  | zero => omega
  | succ f ih =>
    cases f2 with
    | zero => omega
    | succ g =>
      unfold natDigitsAux
      split
      · rfl
      · apply ih <;> omega

theorem ofNat_small (n : Nat) (h : n < 10) : ofNat n = [48 + n] := by
  unfold ofNat natDigitsAux; simp [h]

theorem ofNat_big (n : Nat) (h : ¬ n < 10) : ofNat n = ofNat (n / 10) ++ [48 + n % 10] := by
  unfold ofNat
  conv => lhs; unfold natDigitsAux
  simp only [h, if_false]
  rw [natDigitsAux_acc]
  congr 1
  apply natDigitsAux_fuel <;> omega

theorem digitsVal_append (a b : Bytes) (v : Nat) : digitsVal (a ++ b) v = digitsVal b (digitsVal a v) := by
  induction a generalizing v with
  | nil => rfl
  | cons x xs ih => simp [digitsVal, ih]

theorem ofNat_all_digits (n : Nat) : (ofNat n).all isDigit = true := by
  induction n using Nat.strongRecOn with
  | _ n ih =>
    by_cases h : n < 10
    · rw [ofNat_small n h]; simp [isDigit]; omega
    · rw [ofNat_big n h, List.all_append, ih (n / 10) (by omega)]
      simp [isDigit]; omega

theorem digitsVal_ofNat (n : Nat) : digitsVal (ofNat n) 0 = n := by
  induction n using Nat.strongRecOn with
  | _ n ih =>
    by_cases h : n < 10
    · rw [ofNat_small n h]; simp [digitsVal]
    · rw [ofNat_big n h, digitsVal_append, ih (n / 10) (by omega)]
      simp [digitsVal]; omega

theorem ofNat_ne_nil (n : Nat) : ofNat n ≠ [] := by
  by_cases h : n < 10
  · rw [ofNat_small n h]; simp
  · rw [ofNat_big n h]; simp

theorem parseNat_ofNat (n : Nat) : parseNat (ofNat n) = some n := by
  unfold parseNat
  have h1 : (ofNat n).isEmpty = false := by
    cases h : ofNat n with
    | nil => exact absurd h (ofNat_ne_nil n)
    | cons _ _ => rfl
  simp [h1, ofNat_all_digits, digitsVal_ofNat]

/-- no byte of a rendered number is a given non-digit -/
theorem not_mem_of_all_digits (s : Bytes) (c : Nat) (h : s.all isDigit = true) (hc : isDigit c = false) : c ∉ s := by
  intro hm
  have := List.all_eq_true.mp h c hm
  rw [hc] at this; cases this

theorem ofNat_not_mem (n c : Nat) (hc : isDigit c = false) : c ∉ ofNat n :=
  not_mem_of_all_digits _ _ (ofNat_all_digits n) hc

theorem ofNat_head_digit (n : Nat) : ∃ x r, ofNat n = x :: r ∧ isDigit x = true := by
  cases h : ofNat n with
  | nil => exact absurd h (ofNat_ne_nil n)
  | cons x r =>
    refine ⟨x, r, rfl, ?_⟩
    have := ofNat_all_digits n
    rw [h] at this; simp at this; exact this.1

theorem parseUnsigned_digit (bound x : Nat) (r : Bytes) (hx : x ≠ 43) :
    parseUnsigned bound (x :: r) = match parseNat (x :: r) with
      | some v => if v < bound then some v else none
      | none => none := by
  unfold parseUnsigned
  simp only []
  split
  · rename_i v heq
    split at heq
    · rename_i h2; simp at h2; exact absurd h2.1 hx
    · rw [heq]
  · rename_i heq
    split at heq
    · rename_i h2; simp at h2; exact absurd h2.1 hx
    · rw [heq]

theorem parseU64_ofNat (n : Nat) (h : n < u64Bound) : parseU64 (ofNat n) = some n := by
  obtain ⟨x, r, hx, hd⟩ := ofNat_head_digit n
  have hx43 : x ≠ 43 := by intro e; rw [e] at hd; simp [isDigit] at hd
  unfold parseU64
  rw [hx, parseUnsigned_digit _ _ _ hx43, ← hx, parseNat_ofNat]; simp [h]

theorem parseI32_ofInt (v : Int) (h : fitsI32 v = true) : parseI32 (ofInt v) = some v := by
  unfold ofInt
  split
  · rename_i hneg
    simp only [parseI32, parseNat_ofNat]
    have : -((-v).toNat : Int) = v := by omega
    rw [this, h]; simp
  · rename_i hpos
    obtain ⟨x, r, hx, hd⟩ := ofNat_head_digit v.toNat
    have hv : (v.toNat : Int) = v := by omega
    unfold parseI32
    rw [hx]
    split
    · rename_i heq; simp at heq; rw [heq.1] at hd; simp [isDigit] at hd
    · rename_i heq; simp at heq; rw [heq.1] at hd; simp [isDigit] at hd
    · rw [← hx, parseNat_ofNat]; simp [hv, h]

theorem ofInt_not_mem (v : Int) (c : Nat) (hc : isDigit c = false) (h45 : c ≠ 45) : c ∉ ofInt v := by
  unfold ofInt
  split
  · simp only [List.mem_cons, not_or]; exact ⟨h45, ofNat_not_mem _ _ hc⟩
  · exact ofNat_not_mem _ _ hc

/-! ### separators -/

theorem splitAt1_append (c : Nat) (a r : Bytes) (h : c ∉ a) : splitAt1 c (a ++ c :: r) = (a, some r) := by
  induction a with
  | nil => simp [splitAt1]
  | cons x xs ih =>
    simp only [List.mem_cons, not_or] at h
    have hx : ¬ x = c := fun e => h.1 e.symm
    simp [splitAt1, hx, ih h.2]

theorem splitAt1_none (c : Nat) (a : Bytes) (h : c ∉ a) : splitAt1 c a = (a, none) := by
  induction a with
  | nil => simp [splitAt1]
  | cons x xs ih =>
    simp only [List.mem_cons, not_or] at h
    have hx : ¬ x = c := fun e => h.1 e.symm
    simp [splitAt1, hx, ih h.2]

theorem splitn_cons (c n : Nat) (a r : Bytes) (h : c ∉ a) :
    splitn c (n + 2) (a ++ c :: r) = a :: splitn c (n + 1) r := by
  simp [splitn, splitAt1_append c a r h]

theorem splitn_last (c n : Nat) (a : Bytes) (h : c ∉ a) : splitn c (n + 2) a = [a] := by
  simp [splitn, splitAt1_none c a h]

theorem dropByte_id (c : Nat) (s : Bytes) (h : c ∉ s) : dropByte c s = s := by
  unfold dropByte
  rw [List.filter_eq_self]
  intro x hx
  simp only [bne_iff_ne, ne_eq]
  intro e; exact h (e ▸ hx)

theorem dropWhileEq_id (c : Nat) (s : Bytes) (h : s.head? ≠ some c) : dropWhileEq c s = s := by
  cases s with
  | nil => rfl
  | cons x xs =>
    have hx : ¬ x = c := by intro e; apply h; simp [e]
    simp [dropWhileEq, hx]

theorem trimEnd_id (c : Nat) (s : Bytes) (h : s.getLast? ≠ some c) : trimEnd c s = s := by
  unfold trimEnd
  rw [dropWhileEq_id]
  · simp
  · rwa [List.head?_reverse]

end Bytes
end Nun
