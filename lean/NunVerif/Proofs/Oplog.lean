import NunVerif.Model.Oplog
import NunVerif.Proofs.AL
/-! The bisection of `read_operations_since_from_file` never starts its forward scan after a
record it should return (C12). -/
namespace Nun

/-- timestamps never decrease along the file -/
def OpFile.Sorted (f : OpFile) : Prop :=
  ∀ i j ti tj, i ≤ j → f.timeAt i = some ti → f.timeAt j = some tj → ti ≤ tj

theorem timeAt_some_iff (f : OpFile) (i : Nat) : (∃ t, f.timeAt i = some t) ↔ i < f.length := by
  unfold OpFile.timeAt
  constructor
  · rintro ⟨t, h⟩
    cases hg : f[i]? with
    | none => simp [hg] at h
    | some r => exact (List.getElem?_eq_some_iff.mp hg).1
  · intro h
    exact ⟨(f[i]).t, by simp [List.getElem?_eq_getElem h]⟩

theorem timeAt_none_of_ge (f : OpFile) (i : Nat) (h : f.length ≤ i) : f.timeAt i = none := by
  unfold OpFile.timeAt
  simp [List.getElem?_eq_none h]

/-- every record before index `p` is older than `since` -/
def AllOlderBefore (f : OpFile) (since p : Nat) : Prop := ∀ j t, j < p → f.timeAt j = some t → t < since

structure BisInv (f : OpFile) (since : Nat) (st : BisSt) : Prop where
  i1a : st.lo ≤ st.s
  i1b : st.s ≤ st.hi
  i1c : st.hi ≤ f.length
  i2 : 0 < st.lo → ∃ t, f.timeAt st.lo = some t ∧ t < since
  i3 : ∀ j t, st.hi ≤ j → f.timeAt j = some t → since < t
  i4 : st.s = st.lo → st.hi ≤ st.lo + 1
  i5 : st.s = st.hi → 0 < f.length → st.hi = st.lo + 1 ∧ ∃ t, f.timeAt st.lo = some t ∧ t < since
  i6 : st.s < f.length ∨ st.cur ≠ since ∨ f.length = 0

def bisMeasure (st : BisSt) : Nat := 2 * (st.hi - st.lo) + (if st.s = st.lo then 1 else 0)

theorem bisInv_init (f : OpFile) (since : Nat) :
    BisInv f since { lo := 0, hi := f.length, s := f.length / 2, cur := 0 } := by
  refine ⟨by simp, by simp; omega, by simp, by simp, ?_, ?_, ?_, ?_⟩
  · intro j t hj ht
    simp only [] at hj
    rw [timeAt_none_of_ge f j hj] at ht; simp at ht
  · intro h; simp only [] at h ⊢; omega
  · intro h hn; simp only [] at h; omega
  · simp only []; omega

/-- everything up to and including `lo` is older than `since` once `lo` has been probed -/
theorem older_upto_lo (f : OpFile) (since lo : Nat) (hs : f.Sorted) (t0 : Nat)
    (h0 : f.timeAt lo = some t0) (hlt : t0 < since) : AllOlderBefore f since (lo + 1) := by
  intro j t hj ht
  have := hs j lo t t0 (by omega) ht h0
  omega

/-- what the outcome of one loop iteration guarantees -/
def StepOK (f : OpFile) (since : Nat) (st : BisSt) : Sum BisRes BisSt → Prop
  | .inr st' => BisInv f since st' ∧ bisMeasure st' < bisMeasure st
  | .inl (.found s cur) => (cur ≠ since → AllOlderBefore f since s) ∧
      (cur = since → s < f.length → f.timeAt s = some since) ∧
      (cur = since → f.length ≤ s → f.length = 0)
  | .inl .notFound => AllOlderBefore f since f.length
  | .inl .underflow => False
  | .inl .outOfFuel => False

theorem bisStep_ok (f : OpFile) (since : Nat) (st : BisSt) (hs : f.Sorted) (hi : BisInv f since st) :
    StepOK f since st (bisStep f since st) := by
  obtain ⟨i1a, i1b, i1c, i2, i3, i4, i5, i6⟩ := hi
  -- facts used by every "found" case that is not the equality case
  have older_lo : 0 < st.lo → AllOlderBefore f since (st.lo + 1) := by
    intro hlo
    obtain ⟨t0, h0, hlt⟩ := i2 hlo
    exact older_upto_lo f since st.lo hs t0 h0 hlt
  have older_hi : st.s = st.hi → 0 < f.length → AllOlderBefore f since (st.lo + 1) := by
    intro hsh hn
    obtain ⟨_, t0, h0, hlt⟩ := i5 hsh hn
    exact older_upto_lo f since st.lo hs t0 h0 hlt
  have found_small : st.hi - st.lo ≤ 1 → 0 < f.length ∨ st.s = 0 → AllOlderBefore f since st.s := by
    intro hp hn j t hj ht
    by_cases hsl : st.s = st.lo
    · by_cases hlo : 0 < st.lo
      · exact older_lo hlo j t (by omega) ht
      · omega
    · have hsh : st.s = st.hi := by omega
      have hn' : 0 < f.length := by
        rcases hn with h | h
        · exact h
        · omega
      exact older_hi hsh hn' j t (by omega) ht
  unfold bisStep
  simp only []
  have hnlt : ¬ st.hi < st.lo := by omega
  rw [if_neg hnlt]
  by_cases hfull : st.s < f.length
  · -- a full read: the buffer holds the time of record `s`
    obtain ⟨ts, hts⟩ := (timeAt_some_iff f st.s).mpr hfull
    simp only [hts, Option.getD_some]
    by_cases hfound : ts = since ∨ (st.hi - st.lo ≤ 1 ∧ since < ts) ∨ (st.hi - st.lo = 1 ∧ st.s = 1)
    · rw [if_pos hfound]
      simp only [StepOK]
      refine ⟨?_, fun h _ => by rw [hts, h], fun _ h => by omega⟩
      intro hne
      rcases hfound with heq | ⟨hp, _⟩ | ⟨hp, _⟩
      · exact absurd heq hne
      · exact found_small hp (Or.inl (by omega))
      · exact found_small (by omega) (Or.inl (by omega))
    · rw [if_neg hfound]
      have hne : ts ≠ since := fun h => hfound (Or.inl h)
      by_cases hlt : ts < since
      · -- search bigger
        rw [if_pos hlt]
        simp only [hfull, if_true, StepOK]
        have hshi : st.s < st.hi := by
          by_cases h : st.s = st.hi
          · have := i3 st.s ts (by omega) hts; omega
          · omega
        have hmax : Nat.max st.hi st.s = st.hi := Nat.max_eq_left (by omega)
        have hstep : Nat.max ((st.hi - st.s) / 2) 1 ≤ st.hi - st.s := by
          apply Nat.max_le.mpr; constructor
          · exact Nat.div_le_self _ _
          · omega
        have hstep1 : 1 ≤ Nat.max ((st.hi - st.s) / 2) 1 := Nat.le_max_right _ _
        rw [hmax]
        refine ⟨⟨by simp only []; omega, by simp only []; omega, i1c, ?_, i3, ?_, ?_, Or.inr (Or.inl hne)⟩, ?_⟩
        · intro _; exact ⟨ts, hts, hlt⟩
        · intro h; simp only [] at h; omega
        · intro h _
          simp only [] at h ⊢
          refine ⟨?_, ts, hts, hlt⟩
          -- s + max((hi-s)/2,1) = hi forces hi - s = 1
          have h2 : Nat.max ((st.hi - st.s) / 2) 1 = st.hi - st.s := by omega
          by_cases h3 : st.hi - st.s = 1
          · omega
          · have : (st.hi - st.s) / 2 < st.hi - st.s := Nat.div_lt_self (by omega) (by omega)
            have : Nat.max ((st.hi - st.s) / 2) 1 < st.hi - st.s := Nat.max_lt.mpr ⟨this, by omega⟩
            omega
        · simp only [bisMeasure]
          have : st.s + Nat.max ((st.hi - st.s) / 2) 1 ≠ st.s := by omega
          simp only [this, if_false]
          split <;> omega
      · -- search smaller
        rw [if_neg hlt]
        have hgt : since < ts := by omega
        have hposs : ¬ (st.hi - st.lo ≤ 1) := fun h => hfound (Or.inr (Or.inl ⟨h, hgt⟩))
        have hslo : st.lo < st.s := by
          by_cases h : st.s = st.lo
          · have := i4 h; omega
          · omega
        have hnrec_le : Nat.max ((st.s - st.lo) / 2) 1 ≤ st.s - st.lo := by
          apply Nat.max_le.mpr; constructor
          · exact Nat.div_le_self _ _
          · omega
        have hnrec1 : 1 ≤ Nat.max ((st.s - st.lo) / 2) 1 := Nat.le_max_right _ _
        rw [if_neg (by omega), if_neg (by omega)]
        simp only [hfull, if_true, StepOK]
        have hshi : st.s < st.hi := by
          by_cases h : st.s = st.hi
          · have := (i5 h (by omega)).1; omega
          · omega
        refine ⟨⟨by simp only []; omega, by simp only []; omega, by simp only []; omega, i2, ?_, ?_, ?_, Or.inr (Or.inl hne)⟩, ?_⟩
        · intro j t hj ht
          simp only [] at hj
          have := hs st.s j ts t hj hts ht
          omega
        · intro h
          simp only [] at h ⊢
          -- s - nrec = lo forces nrec = s - lo, hence s - lo = 1
          by_cases h3 : st.s - st.lo = 1
          · omega
          · have : (st.s - st.lo) / 2 < st.s - st.lo := Nat.div_lt_self (by omega) (by omega)
            have : Nat.max ((st.s - st.lo) / 2) 1 < st.s - st.lo := Nat.max_lt.mpr ⟨this, by omega⟩
            omega
        · intro h _; simp only [] at h; omega
        · simp only [bisMeasure]
          split <;> split <;> omega
  · -- a short read at (or past) the end of the file: the buffer keeps its previous contents
    have hge : f.length ≤ st.s := by omega
    have hsn : st.s = st.hi ∧ st.hi = f.length := by omega
    rw [timeAt_none_of_ge f st.s hge]
    simp only [Option.getD_none]
    have hall : 0 < f.length → AllOlderBefore f since f.length := by
      intro hn
      have := older_hi hsn.1 hn
      have hh := (i5 hsn.1 hn).1
      intro j t hj ht
      exact this j t (by omega) ht
    have hall0 : f.length = 0 → AllOlderBefore f since f.length := by
      intro h0 j t hj _; omega
    have hallb : AllOlderBefore f since f.length := by
      by_cases hn : 0 < f.length
      · exact hall hn
      · exact hall0 (by omega)
    by_cases hfound : st.cur = since ∨ (st.hi - st.lo ≤ 1 ∧ since < st.cur) ∨ (st.hi - st.lo = 1 ∧ st.s = 1)
    · rw [if_pos hfound]
      simp only [StepOK]
      refine ⟨fun _ => ?_, fun _ h => by omega, fun hc _ => ?_⟩
      · intro j t hj ht
        have hjn : j < f.length := (timeAt_some_iff f j).mp ⟨t, ht⟩
        exact hallb j t hjn ht
      · rcases i6 with h | h | h
        · omega
        · exact absurd hc h
        · exact h
    · rw [if_neg hfound]
      by_cases hlt : st.cur < since
      · rw [if_pos hlt]
        simp only [hfull, if_false, StepOK]
        exact hallb
      · rw [if_neg hlt]
        have hgt : since < st.cur := by
          have : st.cur ≠ since := fun h => hfound (Or.inl h)
          omega
        have hposs : ¬ (st.hi - st.lo ≤ 1) := fun h => hfound (Or.inr (Or.inl ⟨h, hgt⟩))
        -- impossible: at the end of a non-empty file hi = lo + 1
        by_cases hn : 0 < f.length
        · have := (i5 hsn.1 hn).1; omega
        · omega

/-- the loop, with enough fuel, ends in a sound outcome -/
def RunOK (f : OpFile) (since : Nat) : BisRes → Prop
  | .found s cur => (cur ≠ since → AllOlderBefore f since s) ∧
      (cur = since → s < f.length → f.timeAt s = some since) ∧
      (cur = since → f.length ≤ s → f.length = 0)
  | .notFound => AllOlderBefore f since f.length
  | .underflow => False
  | .outOfFuel => False

theorem bisRun_ok (f : OpFile) (since : Nat) (hs : f.Sorted) :
    ∀ (fuel : Nat) (st : BisSt), BisInv f since st → bisMeasure st < fuel → RunOK f since (bisRun f since fuel st) := by
  intro fuel
  induction fuel with
  | zero => intro st _ h; omega
  | succ fuel ih =>
    intro st hi hm
    have hstep := bisStep_ok f since st hs hi
    unfold bisRun
    cases hb : bisStep f since st with
    | inl r =>
      rw [hb] at hstep
      cases r <;> simpa [StepOK, RunOK] using hstep
    | inr st' =>
      rw [hb] at hstep
      simp only [StepOK] at hstep
      exact ih st' hstep.1 (by omega)

theorem bisect_ok (f : OpFile) (since : Nat) (hs : f.Sorted) : RunOK f since (bisect f since) := by
  unfold bisect
  apply bisRun_ok f since hs _ _ (bisInv_init f since)
  simp only [bisMeasure]
  split <;> omega

/-- the rewind stops at the first record of the run carrying `since` -/
theorem rewind_ok (f : OpFile) (since : Nat) (hs : f.Sorted) :
    ∀ (fuel s : Nat), s < fuel → s < f.length → f.timeAt s = some since →
      rewind f since fuel s ≤ s ∧ AllOlderBefore f since (rewind f since fuel s) := by
  intro fuel
  induction fuel with
  | zero => intro s h; omega
  | succ fuel ih =>
    intro s hf hn hts
    unfold rewind
    by_cases hc : s ≥ 1 ∧ (f.timeAt (s - 1)).getD 0 = since
    · rw [if_pos hc]
      obtain ⟨t', ht'⟩ := (timeAt_some_iff f (s - 1)).mpr (by omega)
      have heq : t' = since := by simpa [ht'] using hc.2
      have := ih (s - 1) (by omega) (by omega) (by rw [ht', heq])
      exact ⟨by omega, this.2⟩
    · rw [if_neg hc]
      refine ⟨Nat.le_refl _, ?_⟩
      intro j t hj ht
      by_cases hs0 : s = 0
      · omega
      · obtain ⟨t', ht'⟩ := (timeAt_some_iff f (s - 1)).mpr (by omega)
        have hne : t' ≠ since := by
          intro h; apply hc; exact ⟨by omega, by simp [ht', h]⟩
        have h1 := hs (s - 1) s t' since (by omega) ht' hts
        have h2 := hs j (s - 1) t t' (by omega) ht ht'
        omega

/-- where the forward scan of `readFile` starts -/
def scanStart (f : OpFile) (since : Nat) : Option Nat :=
  match bisect f since with
  | .found s cur => some (if cur = since then rewind f since (s + 1) s else s)
  | _ => none

/-- **The scan never starts after a record it must return** (and the loop neither runs out of
its `2n+4` iterations nor underflows): for every file with non-decreasing timestamps and every
`since`, either the scan starts at a position before which every record is older than `since`, or
there is no scan and every record of the file is older. -/
theorem scanStart_ok (f : OpFile) (since : Nat) (hs : f.Sorted) :
    match scanStart f since with
    | some p => AllOlderBefore f since p
    | none => AllOlderBefore f since f.length := by
  have h := bisect_ok f since hs
  unfold scanStart
  cases hb : bisect f since with
  | found s cur =>
    rw [hb] at h
    simp only [RunOK] at h
    simp only []
    by_cases hc : cur = since
    · rw [if_pos hc]
      by_cases hn : s < f.length
      · exact (rewind_ok f since hs (s + 1) s (by omega) hn (h.2.1 hc hn)).2
      · have h0 := h.2.2 hc (by omega)
        intro j t hj ht
        have := (timeAt_some_iff f j).mp ⟨t, ht⟩
        omega
    · rw [if_neg hc]; exact h.1 hc
  | notFound => rw [hb] at h; exact h
  | underflow => rw [hb] at h; exact absurd h (by simp [RunOK])
  | outOfFuel => rw [hb] at h; exact absurd h (by simp [RunOK])

/-- the bisection of a sorted file never panics on a `u64` subtraction and never needs more than
its `2n + 4` iterations -/
theorem bisect_total (f : OpFile) (since : Nat) (hs : f.Sorted) :
    bisect f since ≠ .underflow ∧ bisect f since ≠ .outOfFuel := by
  have h := bisect_ok f since hs
  cases hb : bisect f since <;> rw [hb] at h <;> simp [RunOK] at h ⊢

/-! ### the forward scan -/

theorem scan_fold_keys (l : List (OpRec × Nat)) (g : OpResult × Nat → OpRec × Nat → Nat) :
    ∀ (acc : OpResult) (c : Nat) (key : Nat × Nat),
      ((AL.get? acc key).isSome ∨ ∃ p ∈ l, opKey p.1 = key) →
      (AL.get? (l.foldl (fun (st : OpResult × Nat) (p : OpRec × Nat) =>
          (AL.put st.1 (opKey p.1) ((if p.1.o ≤ 3 then p.1.o else 0), st.2, p.2 + 1), g st p)) (acc, c)).1 key).isSome := by
  induction l with
  | nil => intro acc c key h; rcases h with h | ⟨p, hp, _⟩; exact h; simp at hp
  | cons x xs ih =>
    intro acc c key h
    simp only [List.foldl_cons]
    apply ih
    rcases h with h | ⟨p, hp, hk⟩
    · left
      rw [AL.get?_put]; split <;> simp [h]
    · simp only [List.mem_cons] at hp
      rcases hp with rfl | hp
      · left; rw [AL.get?_put]; simp [hk]
      · right; exact ⟨p, hp, hk⟩

/-- every record at or after the scan start ends up in the result, and nothing already in the
result is lost -/
theorem scanFrom_covers (f : OpFile) (start cur : Nat) (acc : OpResult) (key : Nat × Nat)
    (h : (AL.get? acc key).isSome ∨ ∃ j r, start ≤ j ∧ f[j]? = some r ∧ opKey r = key) :
    (AL.get? (scanFrom f start cur acc) key).isSome := by
  unfold scanFrom
  apply scan_fold_keys
  rcases h with h | ⟨j, r, hj, hr, hk⟩
  · exact Or.inl h
  · right
    refine ⟨(r, j - start), ?_, hk⟩
    apply List.mem_zipIdx_iff_getElem?.mpr
    simp only [List.getElem?_drop]
    rw [show start + (j - start) = j by omega]; exact hr

theorem readFile_keeps (f : OpFile) (since : Nat) (acc : OpResult) (key : Nat × Nat)
    (h : (AL.get? acc key).isSome) : (AL.get? (readFile f since acc) key).isSome := by
  unfold readFile
  split
  · exact scanFrom_covers f _ _ acc key (Or.inl h)
  · exact h

/-- **No miss, one file.** For every file with non-decreasing timestamps, every `since` and every
record `r` at index `j` whose timestamp is at or after `since`, the query result has an entry for
`(r.db, r.key)` — whatever the accumulator held before. -/
theorem readFile_no_miss (f : OpFile) (since : Nat) (hs : f.Sorted) (acc : OpResult)
    (j : Nat) (r : OpRec) (hr : f[j]? = some r) (ht : since ≤ r.t) :
    (AL.get? (readFile f since acc) (opKey r)).isSome := by
  have hstart := scanStart_ok f since hs
  have htj : f.timeAt j = some r.t := by simp [OpFile.timeAt, hr]
  have hjn : j < f.length := (List.getElem?_eq_some_iff.mp hr).1
  unfold readFile
  unfold scanStart at hstart
  cases hb : bisect f since with
  | found s cur =>
    rw [hb] at hstart
    simp only [] at hstart ⊢
    apply scanFrom_covers
    right
    refine ⟨j, r, ?_, hr, rfl⟩
    -- j cannot be before the start: everything there is older than since
    by_cases hlt : j < (if cur = since then rewind f since (s + 1) s else s)
    · have := hstart j r.t hlt htj; omega
    · omega
  | notFound => rw [hb] at hstart; have := hstart j r.t hjn htj; omega
  | underflow => rw [hb] at hstart; have := hstart j r.t hjn htj; omega
  | outOfFuel => rw [hb] at hstart; have := hstart j r.t hjn htj; omega

theorem foldl_readFile_keeps (since : Nat) (fs : List OpFile) : ∀ (acc : OpResult) (key : Nat × Nat),
    (AL.get? acc key).isSome → (AL.get? (fs.foldl (fun acc f => readFile f since acc) acc) key).isSome := by
  induction fs with
  | nil => intro acc key h; exact h
  | cons g gs ih => intro acc key h; exact ih _ key (readFile_keeps g since acc key h)

theorem foldl_readFile_no_miss (since : Nat) (fs : List OpFile) (hs : ∀ g ∈ fs, g.Sorted) :
    ∀ (acc : OpResult) (g : OpFile), g ∈ fs → ∀ (j : Nat) (r : OpRec), g[j]? = some r → since ≤ r.t →
      (AL.get? (fs.foldl (fun acc f => readFile f since acc) acc) (opKey r)).isSome := by
  induction fs with
  | nil => intro acc g hg; simp at hg
  | cons g0 gs ih =>
    intro acc g hg j r hr ht
    simp only [List.foldl_cons]
    simp only [List.mem_cons] at hg
    rcases hg with rfl | hg
    · exact foldl_readFile_keeps since gs _ _ (readFile_no_miss g since (hs g (by simp)) acc j r hr ht)
    · exact ih (fun g' hg' => hs g' (by simp [hg'])) _ g hg j r hr ht

/-- **No miss, any number of rotated files.** -/
theorem readAll_no_miss (cur : OpFile) (rot : List OpFile) (since : Nat)
    (hcur : cur.Sorted) (hrot : ∀ g ∈ rot, g.Sorted)
    (g : OpFile) (hg : g = cur ∨ g ∈ rot) (j : Nat) (r : OpRec) (hr : g[j]? = some r) (ht : since ≤ r.t) :
    (AL.get? (readAll cur rot since) (opKey r)).isSome := by
  unfold readAll
  rcases hg with rfl | hg
  · exact readFile_no_miss g since hcur _ j r hr ht
  · apply readFile_keeps
    exact foldl_readFile_no_miss since rot.reverse (fun g' hg' => hrot g' (by simpa using hg')) [] g (by simpa using hg) j r hr ht

/-! ### the label: kind of the most recent record -/

def kindOf (r : OpRec) : Nat := if r.o ≤ 3 then r.o else 0

/-- kind of the last record with this (db, key) in a list of records, `d` if there is none -/
def lastKind (key : Nat × Nat) : List OpRec → Option Nat → Option Nat
  | [], d => d
  | r :: rs, d => lastKind key rs (if opKey r = key then some (kindOf r) else d)

theorem lastKind_indep (key : Nat × Nat) (l : List OpRec) (h : ∃ r ∈ l, opKey r = key) :
    ∀ d d', lastKind key l d = lastKind key l d' := by
  induction l with
  | nil => simp at h
  | cons x xs ih =>
    intro d d'
    simp only [lastKind]
    by_cases hx : opKey x = key
    · simp [hx]
    · simp only [hx, if_false]
      obtain ⟨r, hr, hk⟩ := h
      simp only [List.mem_cons] at hr
      rcases hr with rfl | hr
      · exact absurd hk hx
      · exact ih ⟨r, hr, hk⟩ d d'

theorem lastKind_append (key : Nat × Nat) (l1 l2 : List OpRec) (d : Option Nat) :
    lastKind key (l1 ++ l2) d = lastKind key l2 (lastKind key l1 d) := by
  induction l1 generalizing d with
  | nil => rfl
  | cons x xs ih => simp only [List.cons_append, lastKind]; exact ih _

theorem scan_fold_kind (l : List (OpRec × Nat)) (g : OpResult × Nat → OpRec × Nat → Nat) (key : Nat × Nat) :
    ∀ (acc : OpResult) (c : Nat),
      ((AL.get? (l.foldl (fun (st : OpResult × Nat) (p : OpRec × Nat) =>
          (AL.put st.1 (opKey p.1) ((if p.1.o ≤ 3 then p.1.o else 0), st.2, p.2 + 1), g st p)) (acc, c)).1 key).map (·.1))
        = lastKind key (l.map (·.1)) ((AL.get? acc key).map (·.1)) := by
  induction l with
  | nil => intro acc c; rfl
  | cons x xs ih =>
    intro acc c
    simp only [List.foldl_cons, List.map_cons, lastKind]
    rw [ih]
    congr 1
    rw [AL.get?_put]
    by_cases hx : opKey x.1 = key
    · simp [hx, kindOf]
    · simp [hx]

/-- **Label, one file.** Whenever the query result of a sorted file has to contain `(db, key)` —
some record of it is at or after `since` — its entry is labelled with the kind of the **last**
record of that `(db, key)` in the whole file. -/
theorem readFile_label (f : OpFile) (since : Nat) (hs : f.Sorted)
    (j : Nat) (r : OpRec) (hr : f[j]? = some r) (ht : since ≤ r.t) :
    (AL.get? (readFile f since []) (opKey r)).map (·.1) = lastKind (opKey r) f none := by
  have hstart := scanStart_ok f since hs
  have htj : f.timeAt j = some r.t := by simp [OpFile.timeAt, hr]
  have hjn : j < f.length := (List.getElem?_eq_some_iff.mp hr).1
  unfold readFile
  unfold scanStart at hstart
  cases hb : bisect f since with
  | found s cur =>
    rw [hb] at hstart
    simp only [] at hstart ⊢
    generalize hp : (if cur = since then rewind f since (s + 1) s else s) = p at hstart ⊢
    have hpj : p ≤ j := by
      by_cases hlt : j < p
      · have := hstart j r.t hlt htj; omega
      · omega
    unfold scanFrom
    rw [scan_fold_kind]
    have hmap : (f.drop p).zipIdx.map (·.1) = f.drop p := by simp
    rw [hmap]
    simp only [AL.get?_nil, Option.map_none]
    have hsplit : lastKind (opKey r) f none = lastKind (opKey r) (f.drop p) (lastKind (opKey r) (f.take p) none) := by
      rw [← lastKind_append, List.take_append_drop]
    rw [hsplit]
    apply lastKind_indep
    refine ⟨r, ?_, rfl⟩
    apply List.mem_iff_getElem?.mpr
    exact ⟨j - p, by rw [List.getElem?_drop, show p + (j - p) = j by omega]; exact hr⟩
  | notFound => rw [hb] at hstart; have := hstart j r.t hjn htj; omega
  | underflow => rw [hb] at hstart; have := hstart j r.t hjn htj; omega
  | outOfFuel => rw [hb] at hstart; have := hstart j r.t hjn htj; omega

end Nun
