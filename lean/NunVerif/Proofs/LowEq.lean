import NunVerif.Props.C08Integrity
/-!
# Low-equivalence: what a non-administrator cannot tell apart

`Db.LowEq D a b`: two databases equal in everything except the `$$` entries outside `D` (`D` = the
`$$` keys a session legitimately depends on: the token it logged in with, its own permission list).
Every database operation on a low key gives the same answer and the same pushes on both and keeps
them low-equivalent.  `sort_eq_of_same_members`: `keys` listings do not depend on the map's order.
-/
namespace Nun


theorem Bytes.lt_irrefl (a : Bytes) : Bytes.lt a a = false := by
  induction a with
  | nil => rfl
  | cons x xs ih => simp [Bytes.lt, ih]

theorem Bytes.lt_trans : ∀ (a b c : Bytes), Bytes.lt a b = true → Bytes.lt b c = true → Bytes.lt a c = true := by
  intro a
  induction a with
  | nil =>
    intro b c hab hbc
    cases b with
    | nil => simp [Bytes.lt] at hab
    | cons y ys =>
      cases c with
      | nil => simp [Bytes.lt] at hbc
      | cons z zs => simp [Bytes.lt]
  | cons x xs ih =>
    intro b c hab hbc
    cases b with
    | nil => simp [Bytes.lt] at hab
    | cons y ys =>
      cases c with
      | nil => simp [Bytes.lt] at hbc
      | cons z zs =>
        simp only [Bytes.lt, Bool.or_eq_true, decide_eq_true_eq, Bool.and_eq_true] at hab hbc ⊢
        rcases hab with h1 | ⟨h1, h2⟩
        · rcases hbc with h3 | ⟨h3, _⟩
          · left; omega
          · left; omega
        · rcases hbc with h3 | ⟨h3, h4⟩
          · left; omega
          · right; exact ⟨by omega, ih ys zs h2 h4⟩

theorem Bytes.lt_total : ∀ (a b : Bytes), Bytes.lt a b = false → Bytes.lt b a = false → a = b := by
  intro a
  induction a with
  | nil => intro b h1 h2; cases b with
    | nil => rfl
    | cons y ys => simp [Bytes.lt] at h1
  | cons x xs ih =>
    intro b h1 h2
    cases b with
    | nil => simp [Bytes.lt] at h2
    | cons y ys =>
      simp only [Bytes.lt, Bool.or_eq_false_iff, decide_eq_false_iff_not, Bool.and_eq_false_iff] at h1 h2
      have hxy : x = y := by omega
      subst hxy
      have h1' : Bytes.lt xs ys = false := by rcases h1.2 with h | h; exact absurd rfl h; exact h
      have h2' : Bytes.lt ys xs = false := by rcases h2.2 with h | h; exact absurd rfl h; exact h
      rw [ih ys h1' h2']

/-- strictly increasing -/
def StrictSorted : List Bytes → Prop
  | [] => True
  | x :: t => (∀ y ∈ t, Bytes.lt x y = true) ∧ StrictSorted t

theorem strictSorted_insert (k : Bytes) (l : List Bytes) (hs : StrictSorted l) (hk : k ∉ l) : StrictSorted (Bytes.insertSorted k l) := by
  induction l with
  | nil => simp [Bytes.insertSorted, StrictSorted]
  | cons x xs ih =>
    obtain ⟨hx, hxs⟩ := hs
    simp only [List.mem_cons, not_or] at hk
    unfold Bytes.insertSorted
    split
    · rename_i hlt
      refine ⟨?_, ih hxs hk.2⟩
      intro y hy
      rcases (mem_insertSorted k y xs).1 hy with h | h
      · subst h; exact hlt
      · exact hx y h
    · rename_i hlt
      have hkx : Bytes.lt k x = true := by
        cases h : Bytes.lt k x with
        | true => rfl
        | false => exact absurd (Bytes.lt_total k x h (by simpa using hlt)) hk.1
      refine ⟨?_, hx, hxs⟩
      intro y hy
      rcases List.mem_cons.1 hy with h | h
      · subst h; exact hkx
      · exact Bytes.lt_trans k x y hkx (hx y h)

theorem strictSorted_sort (l : List Bytes) (hn : l.Nodup) : StrictSorted (Bytes.sort l) := by
  induction l with
  | nil => simp [Bytes.sort, StrictSorted]
  | cons x xs ih =>
    simp only [List.nodup_cons] at hn
    simp only [Bytes.sort, List.foldr_cons]
    exact strictSorted_insert x _ (ih hn.2) (by rw [show List.foldr Bytes.insertSorted [] xs = Bytes.sort xs from rfl, mem_sort]; exact hn.1)

/-- a strictly increasing list is determined by its members -/
theorem strictSorted_ext : ∀ (a b : List Bytes), StrictSorted a → StrictSorted b → (∀ x, x ∈ a ↔ x ∈ b) → a = b := by
  intro a
  induction a with
  | nil =>
    intro b _ _ h
    cases b with
    | nil => rfl
    | cons y ys => exact absurd ((h y).2 List.mem_cons_self) (by simp)
  | cons x xs ih =>
    intro b ha hb h
    cases b with
    | nil => exact absurd ((h x).1 List.mem_cons_self) (by simp)
    | cons y ys =>
      obtain ⟨hx, hxs⟩ := ha
      obtain ⟨hy, hys⟩ := hb
      have hxy : x = y := by
        rcases List.mem_cons.1 ((h x).1 List.mem_cons_self) with h1 | h1
        · exact h1
        · rcases List.mem_cons.1 ((h y).2 List.mem_cons_self) with h2 | h2
          · exact h2.symm
          · -- x > y and y > x
            have := Bytes.lt_trans x y x (hx y h2) (hy x h1)
            rw [Bytes.lt_irrefl] at this; cases this
      subst hxy
      congr 1
      apply ih ys hxs hys
      intro z
      constructor
      · intro hz
        rcases List.mem_cons.1 ((h z).1 (List.mem_cons_of_mem _ hz)) with h1 | h1
        · subst h1; have := hx z hz; rw [Bytes.lt_irrefl] at this; cases this
        · exact h1
      · intro hz
        rcases List.mem_cons.1 ((h z).2 (List.mem_cons_of_mem _ hz)) with h1 | h1
        · subst h1; have := hy z hz; rw [Bytes.lt_irrefl] at this; cases this
        · exact h1

/-- sorting forgets the order: two duplicate-free lists with the same members sort to the same list -/
theorem sort_eq_of_same_members (a b : List Bytes) (ha : a.Nodup) (hb : b.Nodup) (h : ∀ x, x ∈ a ↔ x ∈ b) : Bytes.sort a = Bytes.sort b :=
  strictSorted_ext _ _ (strictSorted_sort a ha) (strictSorted_sort b hb) (fun x => by rw [mem_sort, mem_sort]; exact h x)



/-- two databases that a non-administrator cannot tell apart: everything equal except the `$$` entries outside `D`
(`D` = the `$$` keys the session legitimately depends on: the token it logged in with, its own permission list) -/
structure Db.LowEq (D : Bytes → Prop) (a b : Db) : Prop where
  name : a.name = b.name
  strategy : a.strategy = b.strategy
  watchers : a.watchers = b.watchers
  conns : a.conns = b.conns
  nda : AL.NoDupKeys a.map
  ndb : AL.NoDupKeys b.map
  low : ∀ k, (isSecure k = false ∨ D k) → a.getValue k = b.getValue k

theorem lowEq_refl (D : Bytes → Prop) (a : Db) (h : AL.NoDupKeys a.map) : Db.LowEq D a a :=
  ⟨rfl, rfl, rfl, rfl, h, h, fun _ _ => rfl⟩

/-- writing the same entry under a low key on both sides -/
theorem lowEq_put {D : Bytes → Prop} {a b : Db} (h : Db.LowEq D a b) (k v : Bytes) (ver : Int) (st : Status) (va ka op : Nat) :
    Db.LowEq D (a.setValueVersion k v ver st va ka op) (b.setValueVersion k v ver st va ka op) where
  name := h.name
  strategy := h.strategy
  watchers := h.watchers
  conns := h.conns
  nda := AL.noDupKeys_put _ _ _ h.nda
  ndb := AL.noDupKeys_put _ _ _ h.ndb
  low := by
    intro k' hk'
    simp only [Db.getValue, Db.setValueVersion, AL.get?_put]
    split
    · rfl
    · exact h.low k' hk'

theorem lowEq_erase {D : Bytes → Prop} {a b : Db} (h : Db.LowEq D a b) (k : Bytes) :
    Db.LowEq D { a with map := AL.erase a.map k } { b with map := AL.erase b.map k } where
  name := h.name
  strategy := h.strategy
  watchers := h.watchers
  conns := h.conns
  nda := AL.noDupKeys_erase _ _ h.nda
  ndb := AL.noDupKeys_erase _ _ h.ndb
  low := by
    intro k' hk'
    simp only [Db.getValue, AL.get?_erase]
    split
    · rfl
    · exact h.low k' hk'

theorem notify_lowEq {D : Bytes → Prop} {a b : Db} (h : Db.LowEq D a b) (k v : Bytes) (ver : Int) : a.notify k v ver = b.notify k v ver := by
  simp [Db.notify, h.watchers]

/-- `set_value` on a low key: same reply, same pushes, still indistinguishable -/
theorem setValue_lowEq {D : Bytes → Prop} {a b : Db} (h : Db.LowEq D a b) (c : Change) (hk : isSecure c.key = false ∨ D c.key) :
    (a.setValue c).2 = (b.setValue c).2 ∧ Db.LowEq D (a.setValue c).1 (b.setValue c).1 := by
  unfold Db.setValue
  rw [h.low c.key hk]
  cases b.getValue c.key with
  | none =>
    simp only []
    exact ⟨by rw [show (a.setValueVersion c.key c.value (vinc c.version) .new 0 0 c.opId).notify c.key c.value (vinc c.version)
              = (b.setValueVersion c.key c.value (vinc c.version) .new 0 0 c.opId).notify c.key c.value (vinc c.version) from
              notify_lowEq (lowEq_put h _ _ _ _ _ _ _) _ _ _], lowEq_put h _ _ _ _ _ _ _⟩
  | some old =>
    simp only []
    split
    · exact ⟨rfl, h⟩
    · exact ⟨by rw [notify_lowEq (lowEq_put h c.key c.value (c.nextVersion old) (updState old.state) old.vaddr old.kaddr c.opId)],
             lowEq_put h _ _ _ _ _ _ _⟩

theorem getKV_lowEq {D : Bytes → Prop} {a b : Db} (h : Db.LowEq D a b) (k : Bytes) (hk : isSecure k = false ∨ D k) : a.getKV k = b.getKV k := by
  simp [Db.getKV, h.low k hk]

theorem incValue_lowEq {D : Bytes → Prop} {a b : Db} (h : Db.LowEq D a b) (k : Bytes) (inc : Int) (op : Nat) (hk : isSecure k = false ∨ D k) :
    (a.incValue k inc op).2 = (b.incValue k inc op).2 ∧ Db.LowEq D (a.incValue k inc op).1 (b.incValue k inc op).1 := by
  unfold Db.incValue Db.incText Db.versionCapped Db.incStore
  rw [h.low k hk]
  cases hb : b.getValue k with
  | none =>
    simp only []
    split
    · split
      · simp only [Bool.false_eq_true, if_false]
        exact ⟨by rw [notify_lowEq (lowEq_put h _ _ _ _ _ _ _)], lowEq_put h _ _ _ _ _ _ _⟩
      · exact ⟨rfl, h⟩
    · exact ⟨rfl, h⟩
  | some e =>
    simp only []
    split
    · split
      · split
        · exact ⟨rfl, h⟩
        · exact ⟨by simp only []; rw [notify_lowEq (lowEq_put h _ _ _ _ _ _ _)], lowEq_put h _ _ _ _ _ _ _⟩
      · exact ⟨rfl, h⟩
    · exact ⟨rfl, h⟩

/-- `remove_value` on a low key -/
theorem removeValue_lowEq {D : Bytes → Prop} {a b : Db} (h : Db.LowEq D a b) (k : Bytes) (hk : isSecure k = false ∨ D k) :
    (a.removeValue k = none ∧ b.removeValue k = none) ∨
    (∃ a' b' ps, a.removeValue k = some (a', ps) ∧ b.removeValue k = some (b', ps) ∧ Db.LowEq D a' b') := by
  unfold Db.removeValue
  rw [h.low k hk]
  by_cases ht : k = Gen.tokenKey
  · left; simp [ht]
  · right
    simp only [ht, if_false]
    cases hb : b.getValue k with
    | none =>
      exact ⟨a, b, _, rfl, by simp [Db.notifyRemoved, h.watchers], h⟩
    | some e =>
      simp only []
      by_cases hs : e.state = .new
      · simp only [hs, if_true]
        exact ⟨_, _, _, rfl, by simp [Db.notifyRemoved, h.watchers], lowEq_erase h k⟩
      · simp only [hs, if_false]
        exact ⟨_, _, _, rfl, by simp [Db.notifyRemoved, Db.setValueVersion, h.watchers], lowEq_put h _ _ _ _ _ _ _⟩


theorem listKeys_lowEq {D : Bytes → Prop} {a b : Db} (h : Db.LowEq D a b) (pat : Bytes) (system : Bool)
    (hp : system = false ∨ ∀ k, patternMatch pat k = true → isSecure k = false) :
    a.listKeys pat system = b.listKeys pat system := by
  unfold Db.listKeys
  have key : ∀ (x y : Db), Db.LowEq D x y → ∀ k,
      k ∈ (x.map.filter fun (p : Bytes × Entry) => (system || !Bytes.startsWith p.1 Gen.securePrefix) && p.2.state != .deleted && patternMatch pat p.1).map (·.1) →
      k ∈ (y.map.filter fun (p : Bytes × Entry) => (system || !Bytes.startsWith p.1 Gen.securePrefix) && p.2.state != .deleted && patternMatch pat p.1).map (·.1) := by
    intro x y hxy k hk
    obtain ⟨p, hp1, hp2⟩ := List.mem_map.1 hk
    obtain ⟨k0, e⟩ := p
    simp only at hp2; subst hp2
    rw [List.mem_filter] at hp1
    obtain ⟨hm, hc⟩ := hp1
    have hg := (AL.mem_iff_get?_of_noDup x.map k0 e hxy.nda).1 hm
    simp only [Bool.and_eq_true, Bool.or_eq_true, Bool.not_eq_eq_eq_not, Bool.not_true] at hc
    have hlow : isSecure k0 = false := by
      rcases hp with hs | hs
      · subst hs; simpa [isSecure] using hc.1.1
      · exact hs k0 hc.2
    have hg' : AL.get? y.map k0 = some e := by
      have := hxy.low k0 (Or.inl hlow); simp only [Db.getValue] at this; rw [← this]; exact hg
    exact List.mem_map.2 ⟨(k0, e), List.mem_filter.2 ⟨AL.mem_of_get? _ _ _ hg', by simp [hc]⟩, rfl⟩
  have hsym : Db.LowEq D b a := ⟨h.name.symm, h.strategy.symm, h.watchers.symm, h.conns.symm, h.ndb, h.nda, fun k hk => (h.low k hk).symm⟩
  have hf : ∀ (x : Db), (fun (p : Bytes × Entry) => match p with | (k, e) => (system || !Bytes.startsWith k Gen.securePrefix) && e.state != .deleted && patternMatch pat k)
      = fun (p : Bytes × Entry) => (system || !Bytes.startsWith p.1 Gen.securePrefix) && p.2.state != .deleted && patternMatch pat p.1 := by
    intro _; funext p; obtain ⟨_, _⟩ := p; rfl
  rw [hf a]
  apply sort_eq_of_same_members
  · exact List.Nodup.sublist (List.Sublist.map _ List.filter_sublist) h.nda
  · exact List.Nodup.sublist (List.Sublist.map _ List.filter_sublist) h.ndb
  · intro k; exact ⟨key a b h k, key b a hsym k⟩



theorem conflictPattern_low : ∀ k, patternMatch (Gen.conflictsKey ++ [95, 42]) k = true → isSecure k = false := by
  intro x hp
  have hd : Bytes.dropByte 42 (Gen.conflictsKey ++ [95, 42]) = Gen.conflictsKey ++ [95] := by decide
  have he : Bytes.endsWith (Gen.conflictsKey ++ [95, 42]) [42] = true := by decide
  have : Bytes.startsWith x (Gen.conflictsKey ++ [95]) = true := by
    unfold patternMatch at hp; rw [if_pos he, hd] at hp; exact hp
  have hc : Gen.conflictsKey ++ [95] = 36 :: 99 :: (Gen.conflictsKey ++ [95]).drop 2 := by decide
  rw [hc] at this
  cases x with
  | nil => simp [Bytes.startsWith] at this
  | cons x0 xs =>
    cases xs with
    | nil => simp [Bytes.startsWith] at this
    | cons x1 xs =>
      simp only [Bytes.startsWith, Bool.and_eq_true, decide_eq_true_eq] at this
      have hs : Gen.securePrefix = [36, 36] := by decide
      simp [isSecure, hs, Bytes.startsWith, this.1, this.2.1]

theorem any_congr_mem {α : Type} (l : List α) (p q : α → Bool) (h : ∀ x ∈ l, p x = q x) : l.any p = l.any q := by
  induction l with
  | nil => rfl
  | cons x t ih =>
    simp only [List.any_cons, h x List.mem_cons_self, ih (fun y hy => h y (List.mem_cons_of_mem _ hy))]

theorem listConflictKeys_lowEq {D : Bytes → Prop} {a b : Db} (h : Db.LowEq D a b) (k : Bytes) :
    a.listConflictKeys k = b.listConflictKeys k := by
  unfold Db.listConflictKeys
  rw [listKeys_lowEq h _ true (Or.inr conflictPattern_low)]

theorem hasUnresolved_lowEq {D : Bytes → Prop} {a b : Db} (h : Db.LowEq D a b) (k : Bytes) :
    a.hasUnresolved k = b.hasUnresolved k := by
  unfold Db.hasUnresolved
  rw [listConflictKeys_lowEq h k]
  apply any_congr_mem
  intro ck hck
  rw [h.low ck (Or.inl (conflict_listed_not_secure b k ck hck))]

theorem applyResolution_lowEq {D : Bytes → Prop} {a b : Db} (h : Db.LowEq D a b) (c : Change) (hk : isSecure c.key = false ∨ D c.key) :
    (a.applyResolution c).2 = (b.applyResolution c).2 ∧ Db.LowEq D (a.applyResolution c).1 (b.applyResolution c).1 := by
  unfold Db.applyResolution
  simp only [hasUnresolved_lowEq h c.key]
  split <;> exact setValue_lowEq h _ hk

theorem permits_lowEq {D : Bytes → Prop} {a b : Db} (h : Db.LowEq D a b) (user : Option Bytes) (kind : PermKind) (key : Bytes)
    (hD : D (b!"$$permission_$" ++ user.getD b!"all")) : a.permits user kind key = b.permits user kind key := by
  unfold Db.permits
  simp only [h.low _ (Or.inr hD)]

theorem validLogin_lowEq {D : Bytes → Prop} {a b : Db} (h : Db.LowEq D a b) (token : Bytes) (userName : Option Bytes)
    (hD : D (match userName with | some u => b!"$$user_" ++ u | none => Gen.tokenKey)) :
    a.validLogin token userName = b.validLogin token userName := by
  unfold Db.validLogin
  cases userName with
  | some u => simp only [h.low _ (Or.inr hD)]
  | none => simp only [h.low _ (Or.inr hD)]

theorem watch_lowEq {D : Bytes → Prop} {a b : Db} (h : Db.LowEq D a b) (k : Bytes) (s : Sid) : Db.LowEq D (a.watch k s) (b.watch k s) := by
  unfold Db.watch
  rw [h.watchers]
  split
  · exact h
  · exact { h with watchers := by simp [h.watchers] }

theorem unwatch_lowEq {D : Bytes → Prop} {a b : Db} (h : Db.LowEq D a b) (k : Bytes) (s : Sid) : Db.LowEq D (a.unwatch k s) (b.unwatch k s) := by
  unfold Db.unwatch
  exact { h with watchers := by simp [h.watchers] }

theorem unwatchAll_lowEq {D : Bytes → Prop} {a b : Db} (h : Db.LowEq D a b) (s : Sid) : Db.LowEq D (a.unwatchAll s) (b.unwatchAll s) := by
  unfold Db.unwatchAll
  rw [h.watchers]
  generalize AL.keys b.watchers = ks
  induction ks generalizing a b with
  | nil => exact h
  | cons k rest ih => simp only [List.foldl_cons]; exact ih (unwatch_lowEq h k s)

theorem arbiterPushes_lowEq {D : Bytes → Prop} {a b : Db} (h : Db.LowEq D a b) (msg : Bytes) : a.arbiterPushes msg = b.arbiterPushes msg := by
  simp [Db.arbiterPushes, h.watchers]

theorem hasArbiter_lowEq {D : Bytes → Prop} {a b : Db} (h : Db.LowEq D a b) : a.hasArbiter = b.hasArbiter := by
  simp [Db.hasArbiter, h.watchers]

/-- `register_arbiter`: same pushes, still indistinguishable -/
theorem registerArbiter_lowEq {D : Bytes → Prop} {a b : Db} (h : Db.LowEq D a b) (sid : Sid) :
    (Node.registerArbiter a sid).2 = (Node.registerArbiter b sid).2 ∧ Db.LowEq D (Node.registerArbiter a sid).1 (Node.registerArbiter b sid).1 := by
  unfold Node.registerArbiter
  simp only []
  have hw := watch_lowEq h Gen.conflictsKey sid
  rw [listConflictKeys_lowEq hw []]
  have hmem : ∀ ck ∈ (b.watch Gen.conflictsKey sid).listConflictKeys [], isSecure ck = false :=
    fun ck hck => conflict_listed_not_secure _ [] ck hck
  generalize (b.watch Gen.conflictsKey sid).listConflictKeys [] = cks at hmem
  generalize a.watch Gen.conflictsKey sid = a1 at hw
  generalize b.watch Gen.conflictsKey sid = b1 at hw
  suffices H : ∀ (evs : List Ev) (x y : Db), Db.LowEq D x y →
      (cks.foldl (fun (acc : Db × List Ev) ck =>
        let (d, evs) := acc
        match d.getValue ck with
        | some e =>
          if Bytes.startsWith e.value Gen.resolvedPrefix then
            match d.removeValue ck with
            | some (d', ps) => (d', evs ++ pushes ps)
            | none => (d, evs)
          else (d, evs ++ d.arbiterPushes e.value)
        | none => (d, evs)) (x, evs)).2 =
      (cks.foldl (fun (acc : Db × List Ev) ck =>
        let (d, evs) := acc
        match d.getValue ck with
        | some e =>
          if Bytes.startsWith e.value Gen.resolvedPrefix then
            match d.removeValue ck with
            | some (d', ps) => (d', evs ++ pushes ps)
            | none => (d, evs)
          else (d, evs ++ d.arbiterPushes e.value)
        | none => (d, evs)) (y, evs)).2 ∧
      Db.LowEq D (cks.foldl (fun (acc : Db × List Ev) ck =>
        let (d, evs) := acc
        match d.getValue ck with
        | some e =>
          if Bytes.startsWith e.value Gen.resolvedPrefix then
            match d.removeValue ck with
            | some (d', ps) => (d', evs ++ pushes ps)
            | none => (d, evs)
          else (d, evs ++ d.arbiterPushes e.value)
        | none => (d, evs)) (x, evs)).1
        (cks.foldl (fun (acc : Db × List Ev) ck =>
        let (d, evs) := acc
        match d.getValue ck with
        | some e =>
          if Bytes.startsWith e.value Gen.resolvedPrefix then
            match d.removeValue ck with
            | some (d', ps) => (d', evs ++ pushes ps)
            | none => (d, evs)
          else (d, evs ++ d.arbiterPushes e.value)
        | none => (d, evs)) (y, evs)).1 from H [] a1 b1 hw
  induction cks with
  | nil => intro evs x y hxy; exact ⟨rfl, hxy⟩
  | cons ck rest ih =>
    intro evs x y hxy
    simp only [List.foldl_cons]
    have hlow := hmem ck List.mem_cons_self
    have ih' := ih (fun c hc => hmem c (List.mem_cons_of_mem _ hc))
    rw [hxy.low ck (Or.inl hlow)]
    cases y.getValue ck with
    | none => exact ih' evs x y hxy
    | some e =>
      simp only []
      split
      · rcases removeValue_lowEq hxy ck (Or.inl hlow) with ⟨h1, h2⟩ | ⟨x', y', ps, h1, h2, h3⟩
        · rw [h1, h2]; exact ih' evs x y hxy
        · rw [h1, h2]; exact ih' _ x' y' h3
      · rw [arbiterPushes_lowEq hxy]; exact ih' _ x y hxy


end Nun
