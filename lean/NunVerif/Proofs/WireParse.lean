import NunVerif.Proofs.Wire
import NunVerif.Model.Exec
/-
  `Request.parse` reads back every replication message the node prints
  (`replicate`, `replicate-remove`, `replicate-increment`, and the `rp <id> …` envelope).
-/
namespace Nun
open Bytes

theorem getLast?_sep (a v : Bytes) (c : Nat) : (a ++ c :: v).getLast? = if v = [] then some c else v.getLast? := by
  cases v with
  | nil => simp
  | cons x xs => simp [List.getLast?_append, List.getLast?_cons_cons, List.getLast?_cons]

/-- what a field must satisfy to survive the text format -/
structure WireOk (db key value : Bytes) : Prop where
  db_sp : 32 ∉ db
  key_sp : 32 ∉ key
  key_nl : 10 ∉ key
  val_nl : 10 ∉ value
  val_semi : value.getLast? ≠ some 59

theorem parseVersionField_ofInt (v : Int) (h : fitsI32 v = true) : parseVersionField (ofInt v) = v := by
  unfold parseVersionField noNl
  rw [dropByte_id 10 _ (ofInt_not_mem v 10 (by decide) (by decide)), parseI32_ofInt v h]; rfl

theorem parseIncField_ofInt (v : Int) (h : fitsI32 v = true) : parseIncField (ofInt v) = v := by
  unfold parseIncField noNl
  rw [dropByte_id 10 _ (ofInt_not_mem v 10 (by decide) (by decide)), parseI32_ofInt v h]; rfl

theorem replicateMsg_shape (db key value : Bytes) (ver : Int) :
    replicateMsg db key value ver = b!"replicate" ++ 32 :: (db ++ 32 :: (key ++ 32 :: (ofInt ver ++ 32 :: value))) := by
  simp [replicateMsg]

theorem replicateMsg_last (db key value : Bytes) (ver : Int) (c : Nat) (h32 : c ≠ 32) (h : value.getLast? ≠ some c) :
    (replicateMsg db key value ver).getLast? ≠ some c := by
  rw [replicateMsg_shape]
  rw [getLast?_sep, if_neg (by simp), getLast?_sep, if_neg (by simp), getLast?_sep, if_neg (by simp), getLast?_sep]
  split
  · simp; exact fun e => h32 e.symm
  · exact h

/-- **set**: the `replicate` line reads back as exactly the write it was printed from -/
theorem parse_replicateMsg (db key value : Bytes) (ver : Int) (w : WireOk db key value) (hv : fitsI32 ver = true) :
    Request.parse (replicateMsg db key value ver) = .ok (.replicateSet db key value ver) := by
  unfold Request.parse
  rw [trimEnd_id 59 _ (replicateMsg_last db key value ver 59 (by decide) w.val_semi), replicateMsg_shape]
  rw [splitn_cons 32 1 _ _ (by decide), splitn_cons 32 0 _ _ w.db_sp]
  simp only [splitn]
  have hcmd : (b!"replicate" = ([] : Bytes)) = False := by simp
  simp only [hcmd, if_false]
  unfold parseArgs
  simp only [List.getElem?_cons_zero, List.getElem?_cons_succ, Option.getD_some]
  have h3 : splitn 32 3 (key ++ 32 :: (ofInt ver ++ 32 :: value)) = [key, ofInt ver, value] := by
    rw [splitn_cons 32 1 _ _ w.key_sp, splitn_cons 32 0 _ _ (ofInt_not_mem ver 32 (by decide) (by decide))]
    simp [splitn]
  simp (decide := true) only [h3, List.getElem?_cons_zero, List.getElem?_cons_succ, Option.getD_some, if_false, if_true,
    parseVersionField_ofInt ver hv, noNl, dropByte_id 10 key w.key_nl, dropByte_id 10 value w.val_nl]

theorem replicateRemoveMsg_shape (db key : Bytes) :
    replicateRemoveMsg db key = b!"replicate-remove" ++ 32 :: (db ++ 32 :: key) := by
  simp [replicateRemoveMsg]

/-- **remove**: the `replicate-remove` line reads back as the removal it was printed from -/
theorem parse_replicateRemoveMsg (db key : Bytes) (hdb : 32 ∉ db) (hnl : 10 ∉ key) (hsemi : key.getLast? ≠ some 59) :
    Request.parse (replicateRemoveMsg db key) = .ok (.replicateRemove db key) := by
  unfold Request.parse
  have hlast : (replicateRemoveMsg db key).getLast? ≠ some 59 := by
    rw [replicateRemoveMsg_shape, getLast?_sep, if_neg (by simp), getLast?_sep]
    split
    · simp
    · exact hsemi
  rw [trimEnd_id 59 _ hlast, replicateRemoveMsg_shape]
  rw [splitn_cons 32 1 _ _ (by decide), splitn_cons 32 0 _ _ hdb]
  simp only [splitn]
  have hcmd : (b!"replicate-remove" = ([] : Bytes)) = False := by simp
  simp only [hcmd, if_false]
  unfold parseArgs
  simp (decide := true) only [List.getElem?_cons_zero, List.getElem?_cons_succ, Option.getD_some, if_false, if_true,
    noNl, dropByte_id 10 key hnl]

theorem replicateIncMsg_shape (db key : Bytes) (inc : Int) :
    replicateIncMsg db key inc = b!"replicate-increment" ++ 32 :: (db ++ 32 :: (key ++ 32 :: ofInt inc)) := by
  simp [replicateIncMsg]

theorem ofInt_last_ne (v : Int) (c : Nat) (hc : isDigit c = false) (h45 : c ≠ 45) : (ofInt v).getLast? ≠ some c := by
  intro h
  exact ofInt_not_mem v c hc h45 (List.mem_of_getLast? h)

/-- **increment**: the `replicate-increment` line reads back as the increment it was printed from -/
theorem parse_replicateIncMsg (db key : Bytes) (inc : Int) (hdb : 32 ∉ db) (hsp : 32 ∉ key) (hdbnl : 10 ∉ db) (hv : fitsI32 inc = true) :
    Request.parse (replicateIncMsg db key inc) = .ok (.replicateIncrement db key inc) := by
  unfold Request.parse
  have hne : ofInt inc ≠ [] := by
    unfold ofInt; split
    · simp
    · exact ofNat_ne_nil _
  have hlast : (replicateIncMsg db key inc).getLast? ≠ some 59 := by
    rw [replicateIncMsg_shape, getLast?_sep, if_neg (by simp), getLast?_sep, if_neg (by simp), getLast?_sep, if_neg hne]
    exact ofInt_last_ne inc 59 (by decide) (by decide)
  rw [trimEnd_id 59 _ hlast, replicateIncMsg_shape]
  rw [splitn_cons 32 1 _ _ (by decide), splitn_cons 32 0 _ _ hdb]
  simp only [splitn]
  have hcmd : (b!"replicate-increment" = ([] : Bytes)) = False := by simp
  simp only [hcmd, if_false]
  unfold parseArgs
  have h2 : splitn 32 2 (key ++ 32 :: ofInt inc) = [key, ofInt inc] := by
    rw [splitn_cons 32 0 _ _ hsp]; simp [splitn]
  simp (decide := true) only [List.getElem?_cons_zero, List.getElem?_cons_succ, Option.getD_some, if_false, if_true,
    noNl, dropByte_id 10 db hdbnl, h2, parseIncField_ofInt inc hv]

/-- the envelope of the replication loop -/
def rpLine (id : Nat) (msg : Bytes) : Bytes := b!"rp " ++ ofNat id ++ [32] ++ msg

theorem rpLine_shape (id : Nat) (msg : Bytes) : rpLine id msg = b!"rp" ++ 32 :: (ofNat id ++ 32 :: msg) := by
  simp [rpLine]

/-- **envelope**: `rp <id> <msg>` reads back as the message and its operation id -/
theorem parse_rpLine (id : Nat) (msg : Bytes) (hid : id < u64Bound) (hne : msg ≠ []) (hsemi : msg.getLast? ≠ some 59) :
    Request.parse (rpLine id msg) = .ok (.replicateRequest msg id) := by
  unfold Request.parse
  have hlast : (rpLine id msg).getLast? ≠ some 59 := by
    rw [rpLine_shape, getLast?_sep, if_neg (by simp), getLast?_sep, if_neg hne]; exact hsemi
  rw [trimEnd_id 59 _ hlast, rpLine_shape]
  rw [splitn_cons 32 1 _ _ (by decide), splitn_cons 32 0 _ _ (ofNat_not_mem id 32 (by decide))]
  simp only [splitn]
  have hcmd : (b!"rp" = ([] : Bytes)) = False := by simp
  simp only [hcmd, if_false]
  unfold parseArgs
  simp (decide := true) only [List.getElem?_cons_zero, List.getElem?_cons_succ, Option.getD_some, if_false, if_true,
    Option.bind_some, parseU64_ofNat id hid, hne]

end Nun
