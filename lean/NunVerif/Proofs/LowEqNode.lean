import NunVerif.Proofs.LowEq
/-!
# Low-equivalence at node level: two runs of the same request

`n` and `n.swap d` are the same node with two tables of databases that a non-administrator cannot
tell apart (`LowDbs`).  `RelOut`: the two runs give the same reply and pushes, the resulting nodes
are again the same node with indistinguishable tables.
-/
namespace Nun

/-- the same node with other databases -/
def Node.swap (n : Node) (d : List (Bytes × Db)) : Node := { n with dbs := d }

/-- database tables a non-administrator cannot tell apart: the same names, low-equivalent databases filed under their names;
`D name` = the `$$` keys of database `name` the session legitimately depends on -/
def LowDbs (D : Bytes → Bytes → Prop) (d1 d2 : List (Bytes × Db)) : Prop :=
  ∀ name, (AL.get? d1 name = none ∧ AL.get? d2 name = none) ∨
    (∃ a b, AL.get? d1 name = some a ∧ AL.get? d2 name = some b ∧ Db.LowEq (D name) a b ∧ a.name = name)

/-- the two runs: same reply and pushes, same node apart from the databases, which stay indistinguishable -/
def RelOut (D : Bytes → Bytes → Prop) (x1 x2 : Node × Out) : Prop :=
  x1.2 = x2.2 ∧ ∃ d, x2.1 = x1.1.swap d ∧ LowDbs D x1.1.dbs d

theorem lowDbs_put {D : Bytes → Bytes → Prop} {d1 d2 : List (Bytes × Db)} (h : LowDbs D d1 d2) (a b : Db)
    (hab : Db.LowEq (D a.name) a b) : LowDbs D (AL.put d1 a.name a) (AL.put d2 b.name b) := by
  intro name
  rw [← hab.name]
  simp only [AL.get?_put]
  split
  · rename_i heq; subst heq; exact Or.inr ⟨a, b, rfl, rfl, hab, rfl⟩
  · exact h name

theorem lowDbs_get {D : Bytes → Bytes → Prop} {d1 d2 : List (Bytes × Db)} (h : LowDbs D d1 d2) (name : Bytes) (a : Db)
    (ha : AL.get? d1 name = some a) : ∃ b, AL.get? d2 name = some b ∧ Db.LowEq (D name) a b ∧ a.name = name := by
  rcases h name with ⟨h1, _⟩ | ⟨a', b, h1, h2, h3, h4⟩
  · rw [ha] at h1; cases h1
  · rw [ha] at h1; cases h1; exact ⟨b, h2, h3, h4⟩

theorem lowDbs_none {D : Bytes → Bytes → Prop} {d1 d2 : List (Bytes × Db)} (h : LowDbs D d1 d2) (name : Bytes)
    (ha : AL.get? d1 name = none) : AL.get? d2 name = none := by
  rcases h name with ⟨_, h2⟩ | ⟨a', b, h1, _⟩
  · exact h2
  · rw [ha] at h1; cases h1

theorem relOut_same (D : Bytes → Bytes → Prop) (n : Node) (d : List (Bytes × Db)) (h : LowDbs D n.dbs d) (out : Out) :
    RelOut D (n, out) (n.swap d, out) := ⟨rfl, d, rfl, h⟩

@[simp] theorem swap_tick (n : Node) (d : List (Bytes × Db)) : (n.swap d).tick = (n.tick.1.swap d, n.tick.2) := rfl
@[simp] theorem swap_session (n : Node) (d : List (Bytes × Db)) (sid : Sid) : (n.swap d).session sid = n.session sid := rfl
@[simp] theorem swap_isPrimary (n : Node) (d : List (Bytes × Db)) : (n.swap d).isPrimary = n.isPrimary := rfl
@[simp] theorem swap_isEligible (n : Node) (d : List (Bytes × Db)) : (n.swap d).isEligible = n.isEligible := rfl
@[simp] theorem swap_db? (n : Node) (d : List (Bytes × Db)) (name : Bytes) : (n.swap d).db? name = AL.get? d name := rfl
@[simp] theorem swap_dbs (n : Node) (d : List (Bytes × Db)) : (n.swap d).dbs = d := rfl
@[simp] theorem swap_clock (n : Node) (d : List (Bytes × Db)) : (n.swap d).clock = n.clock := rfl
@[simp] theorem swap_swap (n : Node) (d d' : List (Bytes × Db)) : (n.swap d).swap d' = n.swap d' := rfl
theorem swap_setDb (n : Node) (d : List (Bytes × Db)) (db : Db) : (n.swap d).setDb db = n.swap (AL.put d db.name db) := rfl
theorem setDb_eq_swap (n : Node) (db : Db) : n.setDb db = n.swap (AL.put n.dbs db.name db) := rfl
@[simp] theorem swap_sendToPrimary (n : Node) (d : List (Bytes × Db)) (msg : Bytes) : (n.swap d).sendToPrimary msg = n.sendToPrimary msg := rfl
@[simp] theorem swap_replicateWeb (n : Node) (d : List (Bytes × Db)) (msg : Bytes) :
    (n.swap d).replicateWeb msg = ((n.replicateWeb msg).1.swap d, (n.replicateWeb msg).2) := rfl
theorem swap_replicateChange (n : Node) (d : List (Bytes × Db)) (name : Bytes) (c : Change) :
    (n.swap d).replicateChange name c = ((n.replicateChange name c).1.swap d, (n.replicateChange name c).2) := by
  by_cases h : (n.isPrimary || n.isEligible) = true
  · simp only [Node.replicateChange, swap_isPrimary, swap_isEligible, h, if_true]; rfl
  · simp only [Node.replicateChange, swap_isPrimary, swap_isEligible, h, if_false]; rfl

/-- `apply_change_to_db_try_fix_conflicts` on a low key of two indistinguishable databases -/
theorem applyChange_rel {Dk : Bytes → Prop} (n : Node) (d : List (Bytes × Db)) (a b : Db) (c : Change) (h : Db.LowEq Dk a b)
    (hk : isSecure c.key = false) :
    ((n.swap d).applyChange b c).1 = (n.applyChange a c).1.swap d ∧
    ((n.swap d).applyChange b c).2.2 = (n.applyChange a c).2.2 ∧
    Db.LowEq Dk (n.applyChange a c).2.1 ((n.swap d).applyChange b c).2.1 := by
  obtain ⟨hs2, hs1⟩ := setValue_lowEq h c (Or.inl hk)
  unfold Node.applyChange
  generalize hra : a.setValue c = ra at hs1 hs2
  generalize hrb : b.setValue c = rb at hs1 hs2
  obtain ⟨a', sa, pa⟩ := ra
  obtain ⟨b', sb, pb⟩ := rb
  simp only [Prod.mk.injEq] at hs2
  obtain ⟨hsr, hsp⟩ := hs2
  subst hsr; subst hsp
  cases sa with
  | set k v => exact ⟨rfl, rfl, hs1⟩
  | versionError key oldVersion version old change state =>
    simp only []
    -- the version error carries the change's own key
    have hkey : key = c.key ∧ change = c := by
      have := hra
      unfold Db.setValue at this
      split at this
      · simp only [] at this; split at this
        · simp only [Prod.mk.injEq, SetResp.versionError.injEq] at this; exact ⟨this.2.1.1.symm, this.2.1.2.2.2.2.1.symm⟩
        · simp at this
      · simp at this
    obtain ⟨hk1, hc1⟩ := hkey
    subst hk1; subst hc1
    rw [← h.strategy]
    cases a.strategy with
    | none => exact ⟨rfl, rfl, h⟩
    | newer =>
      simp only []
      split
      · simp only [swap_tick, Node.tick, swap_clock]
        obtain ⟨g2, g1⟩ := setValue_lowEq h { key := change.key, value := change.value, version := oldVersion, opId := n.clock, resolve := true } (Or.inl hk)
        generalize a.setValue { key := change.key, value := change.value, version := oldVersion, opId := n.clock, resolve := true } = xa at g1 g2
        generalize b.setValue { key := change.key, value := change.value, version := oldVersion, opId := n.clock, resolve := true } = xb at g1 g2
        obtain ⟨xa1, xa2, xa3⟩ := xa
        obtain ⟨xb1, xb2, xb3⟩ := xb
        simp only [Prod.mk.injEq] at g2
        obtain ⟨g2a, g2b⟩ := g2
        subst g2a; subst g2b
        exact ⟨rfl, rfl, g1⟩
      · exact ⟨rfl, rfl, h⟩
    | arbiter =>
      simp only []
      split
      · exact ⟨rfl, rfl, h⟩
      · rw [← hasArbiter_lowEq h]
        split
        · exact ⟨rfl, rfl, h⟩
        · have h1 := lowEq_put h change.key old.value inConflict state old.vaddr old.kaddr old.opId
          rw [← h.name, ← listConflictKeys_lowEq h1 change.key, ← arbiterPushes_lowEq h1]
          simp only [swap_tick, Node.tick, swap_clock]
          obtain ⟨g2, g1⟩ := setValue_lowEq h1 { key := conflictKey change, value := noticeText a.name change change.key old oldVersion version ((a.setValueVersion change.key old.value inConflict state old.vaddr old.kaddr old.opId).listConflictKeys change.key), version := -1, opId := n.clock, resolve := false } (Or.inl (conflictKey_not_secure _))
          generalize (a.setValueVersion change.key old.value inConflict state old.vaddr old.kaddr old.opId).setValue _ = xa at g1 g2
          generalize (b.setValueVersion change.key old.value inConflict state old.vaddr old.kaddr old.opId).setValue _ = xb at g1 g2
          obtain ⟨xa1, xa2, xa3⟩ := xa
          obtain ⟨xb1, xb2, xb3⟩ := xb
          simp only [Prod.mk.injEq] at g2
          obtain ⟨g2a, g2b⟩ := g2
          subst g2a; subst g2b
          have e1 := swap_replicateChange { n with clock := n.clock + 1 } d a.name
            { key := conflictKey change, value := noticeText a.name change change.key old oldVersion version ((a.setValueVersion change.key old.value inConflict state old.vaddr old.kaddr old.opId).listConflictKeys change.key), version := -1, opId := n.clock, resolve := false }
          refine ⟨congrArg Prod.fst e1, ?_, g1⟩
          have e2 := congrArg Prod.snd e1
          simp only [] at e2
          exact congrArg (fun x => (Resp.error (b!"$$conflitct unresolved " ++ conflictKey change), (a.setValueVersion change.key old.value inConflict state old.vaddr old.kaddr old.opId).arbiterPushes (noticeText a.name change change.key old oldVersion version ((a.setValueVersion change.key old.value inConflict state old.vaddr old.kaddr old.opId).listConflictKeys change.key)) ++ pushes xa3 ++ x)) e2

theorem setKeyValue_rel {Dk : Bytes → Prop} (n : Node) (d : List (Bytes × Db)) (a b : Db) (k v : Bytes) (ver : Int) (h : Db.LowEq Dk a b)
    (hk : isSecure k = false) :
    ((n.swap d).setKeyValue b k v ver).1 = (n.setKeyValue a k v ver).1.swap d ∧
    ((n.swap d).setKeyValue b k v ver).2.2 = (n.setKeyValue a k v ver).2.2 ∧
    Db.LowEq Dk (n.setKeyValue a k v ver).2.1 ((n.swap d).setKeyValue b k v ver).2.1 := by
  unfold Node.setKeyValue
  simp only [swap_tick, Node.tick, swap_clock]
  exact applyChange_rel { n with clock := n.clock + 1 } d a b _ h hk

theorem setConnCounter_rel {Dk : Bytes → Prop} (n : Node) (d : List (Bytes × Db)) (a b : Db) (h : Db.LowEq Dk a b) :
    ((n.swap d).setConnCounter b).1 = (n.setConnCounter a).1.swap d ∧
    ((n.swap d).setConnCounter b).2.2 = (n.setConnCounter a).2.2 ∧
    Db.LowEq Dk (n.setConnCounter a).2.1 ((n.swap d).setConnCounter b).2.1 := by
  unfold Node.setConnCounter
  have := setKeyValue_rel n d a b Gen.connectionsKey (Bytes.ofNat a.conns) (-1) h connectionsKey_not_secure
  rw [← h.conns]
  obtain ⟨h1, h2, h3⟩ := this
  generalize n.setKeyValue a Gen.connectionsKey (Bytes.ofNat a.conns) (-1) = xa at h1 h2 h3
  generalize (n.swap d).setKeyValue b Gen.connectionsKey (Bytes.ofNat a.conns) (-1) = xb at h1 h2 h3
  obtain ⟨xa1, xa2, xa3, xa4⟩ := xa
  obtain ⟨xb1, xb2, xb3, xb4⟩ := xb
  simp only [Prod.mk.injEq] at h1 h2 h3 ⊢
  exact ⟨h1, h2.2, h3⟩

theorem lowEq_conns {Dk : Bytes → Prop} {a b : Db} (h : Db.LowEq Dk a b) (c : Nat) : Db.LowEq Dk { a with conns := c } { b with conns := c } :=
  { h with conns := rfl }

/-- the connection bookkeeping of `use-db` / disconnect on one database -/
theorem bumpConn_rel {D : Bytes → Bytes → Prop} (n : Node) (d : List (Bytes × Db)) (hl : LowDbs D n.dbs d) (name : Bytes) (f : Nat → Nat) :
    ∃ d', (match AL.get? d name with
            | some db => (match (n.swap d).setConnCounter { db with conns := f db.conns } with | (m, db', evs) => (m.setDb db', evs))
            | none => (n.swap d, []))
          = ((match n.db? name with
            | some db => (match n.setConnCounter { db with conns := f db.conns } with | (m, db', evs) => (m.setDb db', evs))
            | none => (n, [])).1.swap d',
             (match n.db? name with
            | some db => (match n.setConnCounter { db with conns := f db.conns } with | (m, db', evs) => (m.setDb db', evs))
            | none => (n, [])).2) ∧
          LowDbs D (match n.db? name with
            | some db => (match n.setConnCounter { db with conns := f db.conns } with | (m, db', evs) => (m.setDb db', evs))
            | none => (n, [])).1.dbs d' := by
  cases hg : n.db? name with
  | none =>
    have := lowDbs_none hl name hg
    simp only [this]
    exact ⟨d, rfl, hl⟩
  | some a =>
    obtain ⟨b, hb, hab, han⟩ := lowDbs_get hl name a hg
    simp only [hb]
    have hab' := lowEq_conns hab (f a.conns)
    rw [← hab.conns]
    obtain ⟨h1, h2, h3⟩ := setConnCounter_rel n d { a with conns := f a.conns } { b with conns := f a.conns } hab'
    have hfr := setConnCounter_frame n { a with conns := f a.conns }
    generalize n.setConnCounter { a with conns := f a.conns } = xa at h1 h2 h3 hfr
    generalize (n.swap d).setConnCounter { b with conns := f a.conns } = xb at h1 h2 h3
    obtain ⟨xa1, xa2, xa3⟩ := xa
    obtain ⟨xb1, xb2, xb3⟩ := xb
    simp only [Prod.mk.injEq] at h1 h2 h3 hfr ⊢
    subst h1
    refine ⟨AL.put d xb2.name xb2, ⟨by rw [swap_setDb]; simp [Node.setDb, Node.swap], h2⟩, ?_⟩
    show LowDbs D (AL.put xa1.dbs xa2.name xa2) (AL.put d xb2.name xb2)
    rw [hfr.2.2.1]
    have hname : xa2.name = name := by rw [hfr.2.1]; exact han
    have h3' : Db.LowEq (D xa2.name) xa2 xb2 := by rw [hname]; exact h3
    exact lowDbs_put hl xa2 xb2 h3'

/-- the two runs reach the same decision about a database access; when granted, the two databases are indistinguishable -/
def AccRel (D : Bytes → Bytes → Prop) (n : Node) (d : List (Bytes × Db)) (x1 x2 : Access) : Prop :=
  (∃ out, x1 = .refused out ∧ x2 = .refused out) ∨
  (∃ a b name, x1 = .granted a ∧ x2 = .granted b ∧ Db.LowEq (D name) a b ∧ a.name = name ∧ n.db? name = some a ∧ AL.get? d name = some b)

/-- the `$$` keys of every database the session's own rights are read from -/
def OwnPerm (D : Bytes → Bytes → Prop) (n : Node) (sid : Sid) : Prop :=
  ∀ name, D name (b!"$$permission_$" ++ (n.session sid).user.getD b!"all")

theorem accessDb_rel {D : Bytes → Bytes → Prop} (n : Node) (d : List (Bytes × Db)) (hl : LowDbs D n.dbs d) (sid : Sid) (dbName : Bytes)
    (key : Option Bytes) (kind : PermKind) (hp : OwnPerm D n sid) (hkey : ∀ k, key = some k → isSecure k = false) :
    AccRel D n d (n.accessDb sid dbName key kind) ((n.swap d).accessDb sid dbName key kind) := by
  unfold Node.accessDb
  simp only [swap_session, swap_db?]
  cases hg : n.db? dbName with
  | none => rw [lowDbs_none hl dbName hg]; exact Or.inl ⟨_, rfl, rfl⟩
  | some a =>
    obtain ⟨b, hb, hab, han⟩ := lowDbs_get hl dbName a hg
    rw [hb]
    simp only []
    cases key with
    | none => exact Or.inr ⟨a, b, dbName, rfl, rfl, hab, han, hg, hb⟩
    | some k =>
      have hks := hkey k rfl
      have hks' : Bytes.startsWith k Gen.securePrefix = false := hks
      simp only [hks', Bool.false_eq_true, if_false]
      rw [← permits_lowEq hab (n.session sid).user kind k (hp dbName)]
      split
      · exact Or.inr ⟨a, b, dbName, rfl, rfl, hab, han, hg, hb⟩
      · exact Or.inl ⟨_, rfl, rfl⟩

theorem safeAccess_rel {D : Bytes → Bytes → Prop} (n : Node) (d : List (Bytes × Db)) (hl : LowDbs D n.dbs d) (sid : Sid) (key : Bytes)
    (kind : PermKind) (hp : OwnPerm D n sid) (ha : (n.session sid).auth = false) :
    AccRel D n d (n.safeAccess sid key kind) ((n.swap d).safeAccess sid key kind) := by
  unfold Node.safeAccess
  simp only [swap_session, ha, Bool.not_false, Bool.and_true]
  by_cases hs : Bytes.startsWith key Gen.securePrefix = true
  · simp only [hs, if_true]; exact Or.inl ⟨_, rfl, rfl⟩
  · simp only [hs, Bool.false_eq_true, if_false]
    cases (n.session sid).db with
    | none => exact Or.inl ⟨_, rfl, rfl⟩
    | some dn => exact accessDb_rel n d hl sid dn (some key) kind hp (fun k hk => by cases hk; simpa [isSecure] using hs)

theorem selectedDb_rel {D : Bytes → Bytes → Prop} (n : Node) (d : List (Bytes × Db)) (hl : LowDbs D n.dbs d) (sid : Sid) (hp : OwnPerm D n sid) :
    AccRel D n d (n.selectedDb sid) ((n.swap d).selectedDb sid) := by
  unfold Node.selectedDb
  simp only [swap_session]
  cases (n.session sid).db with
  | none => exact Or.inl ⟨_, rfl, rfl⟩
  | some dn => exact accessDb_rel n d hl sid dn none .read hp (fun k hk => by cases hk)

theorem withAccess_rel {D : Bytes → Bytes → Prop} (n : Node) (d : List (Bytes × Db)) (hl : LowDbs D n.dbs d) (x1 x2 : Access)
    (f1 f2 : Db → Node × Out) (hacc : AccRel D n d x1 x2)
    (hf : ∀ a b name, Db.LowEq (D name) a b → a.name = name → n.db? name = some a → AL.get? d name = some b → RelOut D (f1 a) (f2 b)) :
    RelOut D (n.withAccess x1 f1) ((n.swap d).withAccess x2 f2) := by
  rcases hacc with ⟨out, h1, h2⟩ | ⟨a, b, name, h1, h2, h3, h4, h5, h6⟩
  · rw [h1, h2]; exact relOut_same D n d hl out
  · rw [h1, h2]; exact hf a b name h3 h4 h5 h6

/-- both runs store indistinguishable databases under the same name -/
theorem relOut_setDb {D : Bytes → Bytes → Prop} (n : Node) (d : List (Bytes × Db)) (hl : LowDbs D n.dbs d) (m : Node) (hm : m.dbs = n.dbs)
    (a' b' : Db) (h : Db.LowEq (D a'.name) a' b') (out : Out) :
    RelOut D (m.setDb a', out) ((m.swap d).setDb b', out) := by
  refine ⟨rfl, AL.put d b'.name b', rfl, ?_⟩
  show LowDbs D (AL.put m.dbs a'.name a') (AL.put d b'.name b')
  rw [hm]; exact lowDbs_put hl a' b' h

end Nun
