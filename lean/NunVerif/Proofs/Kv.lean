import NunVerif.Model.Value
import NunVerif.Proofs.AL
/-! The key-value core seen through its "plain map" abstraction (C01, C02, C19). -/
namespace Nun

def Entry.live (e : Entry) : Bool := e.state != .deleted

/-- the plain map a database stands for: live entries only -/
def Db.view (db : Db) (k : Bytes) : Option Bytes :=
  match AL.get? db.map k with
  | some e => if e.live then some e.value else none
  | none => none

/-- tombstones carry the text a read of a missing key reports -/
def TombInv (db : Db) : Prop :=
  ∀ k e, AL.get? db.map k = some e → e.state = .deleted → e.value = Gen.emptyValue

def fupd (σ : Bytes → Option Bytes) (k : Bytes) (v : Option Bytes) : Bytes → Option Bytes :=
  fun k' => if k' = k then v else σ k'

theorem view_setValueVersion (db : Db) (k v : Bytes) (ver : Int) (st : Status) (va ka op : Nat) :
    (db.setValueVersion k v ver st va ka op).view
      = fupd db.view k (if st != .deleted then some v else none) := by
  funext k'
  simp only [Db.view, Db.setValueVersion, fupd, AL.get?_put]
  by_cases h : k = k'
  · subst h; simp [Entry.live]
  · have h' : ¬ k' = k := fun e => h e.symm
    simp [h, h']

theorem tombInv_setValueVersion (db : Db) (k v : Bytes) (ver : Int) (st : Status) (va ka op : Nat)
    (h : TombInv db) (hst : st = .deleted → v = Gen.emptyValue) :
    TombInv (db.setValueVersion k v ver st va ka op) := by
  intro k' e hg hd
  simp only [Db.setValueVersion, AL.get?_put] at hg
  split at hg
  · simp only [Option.some.injEq] at hg; subst hg; exact hst hd
  · exact h k' e hg hd

theorem le_vinc (v : Int) : v ≤ vinc v := by unfold vinc; split <;> omega
theorem vinc_le (v : Int) : vinc v ≤ v + 1 := by unfold vinc; split <;> omega
theorem vinc_le_max (v : Int) (h : v ≤ 2147483647) : vinc v ≤ 2147483647 := by unfold vinc; split <;> omega
theorem vinc_eq (v : Int) (h : v < 2147483647) : vinc v = v + 1 := by unfold vinc; simp [h]

theorem updState_ne_deleted (s : Status) : updState s ≠ .deleted := by
  unfold updState; split <;> simp

/-- reads: the value of the live entry, the `<Empty>` text otherwise -/
theorem getKV_view (db : Db) (k : Bytes) (h : TombInv db) :
    (db.getKV k).1 = (db.view k).getD Gen.emptyValue := by
  unfold Db.getKV Db.view Db.getValue
  cases hg : AL.get? db.map k with
  | none => rfl
  | some e =>
    simp only []
    by_cases hl : e.live
    · simp [hl]
    · have : e.state = .deleted := by
        unfold Entry.live at hl; simpa using hl
      simp [hl, h k e hg this]

/-- an accepted write stores the value -/
theorem setValue_ok_view (db db' : Db) (c : Change) (k v : Bytes) (ps : List Push)
    (h : db.setValue c = (db', .set k v, ps)) : db'.view = fupd db.view c.key (some c.value) := by
  unfold Db.setValue at h
  cases hg : db.getValue c.key with
  | none =>
    simp only [hg, Prod.mk.injEq] at h
    rw [← h.1, view_setValueVersion]; simp
  | some old =>
    simp only [hg] at h
    split at h
    · simp at h
    · simp only [Prod.mk.injEq] at h
      rw [← h.1, view_setValueVersion]; simp [updState_ne_deleted]

/-- a refused write leaves the whole database untouched and notifies nobody -/
theorem setValue_err_unchanged (db db' : Db) (c : Change) (k : Bytes) (ov v : Int) (old : Entry)
    (c' : Change) (st : Status) (ps : List Push)
    (h : db.setValue c = (db', .versionError k ov v old c' st, ps)) : db' = db ∧ ps = [] := by
  unfold Db.setValue at h
  cases hg : db.getValue c.key with
  | none => simp [hg] at h
  | some old0 =>
    simp only [hg] at h
    split at h
    · simp only [Prod.mk.injEq] at h; exact ⟨h.1.symm, h.2.2.symm⟩
    · simp at h

theorem setValue_tombInv (db : Db) (c : Change) (h : TombInv db) : TombInv (db.setValue c).1 := by
  unfold Db.setValue
  cases hg : db.getValue c.key with
  | none => exact tombInv_setValueVersion _ _ _ _ _ _ _ _ h (by simp)
  | some old =>
    simp only []
    split
    · exact h
    · exact tombInv_setValueVersion _ _ _ _ _ _ _ _ h (fun e => absurd e (updState_ne_deleted _))

theorem view_erase (db : Db) (k : Bytes) :
    ({ db with map := AL.erase db.map k } : Db).view = fupd db.view k none := by
  funext k'
  simp only [Db.view, fupd, AL.get?_erase]
  by_cases h : k = k'
  · subst h; simp
  · have h' : ¬ k' = k := fun e => h e.symm
    simp [h, h']

/-- remove: the key is gone from the plain map (whatever its persisted status) -/
theorem removeValue_view (db db' : Db) (k : Bytes) (ps : List Push)
    (h : db.removeValue k = some (db', ps)) : k ≠ Gen.tokenKey ∧ db'.view = fupd db.view k none := by
  unfold Db.removeValue at h
  by_cases hk : k = Gen.tokenKey
  · simp [hk] at h
  · simp only [hk, if_false, Option.some.injEq, Prod.mk.injEq] at h
    refine ⟨hk, ?_⟩
    rw [← h.1]
    cases hg : db.getValue k with
    | none =>
      funext k'
      simp only [fupd]
      by_cases h' : k' = k
      · subst h'; unfold Db.getValue at hg; simp [Db.view, hg]
      · simp [h']
    | some e =>
      simp only []
      split
      · exact view_erase db k
      · rw [view_setValueVersion]; simp

/-- `$$token` is the only key `remove` refuses -/
theorem removeValue_none_iff (db : Db) (k : Bytes) : db.removeValue k = none ↔ k = Gen.tokenKey := by
  unfold Db.removeValue
  by_cases hk : k = Gen.tokenKey <;> simp [hk]

theorem removeValue_tombInv (db : Db) (k : Bytes) (h : TombInv db) (db' : Db) (ps : List Push)
    (hr : db.removeValue k = some (db', ps)) : TombInv db' := by
  unfold Db.removeValue at hr
  split at hr
  · simp at hr
  · simp only [Option.some.injEq, Prod.mk.injEq] at hr
    obtain ⟨hdb, _⟩ := hr
    subst hdb
    cases hg : db.getValue k with
    | none => simpa using h
    | some e =>
      simp only []
      split
      · intro k' e' hg' hd
        simp only [AL.get?_erase] at hg'
        split at hg'
        · simp at hg'
        · exact h k' e' hg' hd
      · exact tombInv_setValueVersion _ _ _ _ _ _ _ _ h (fun _ => Gen_tomb_eq_empty)
where
  Gen_tomb_eq_empty : Gen.tombstoneValue = Gen.emptyValue := by decide

/-- the integer a key currently holds for `increment`: absent (or removed) counts as 0 -/
def specNumeric (σ : Bytes → Option Bytes) (k : Bytes) : Option Int :=
  Bytes.parseI32 ((σ k).getD Gen.zero)

theorem incText_view (db : Db) (k : Bytes) : db.incText k = (db.view k).getD Gen.zero := by
  unfold Db.incText Db.view Db.getValue
  cases hg : AL.get? db.map k with
  | none => rfl
  | some e =>
    simp only [Entry.live]
    by_cases hd : e.state = .deleted <;> simp [hd]

theorem incStore_view (db : Db) (k next : Bytes) (op : Nat) :
    (db.incStore k next op).view = fupd db.view k (some next) := by
  unfold Db.incStore
  cases hg : db.getValue k with
  | none => simp only []; rw [view_setValueVersion]; simp
  | some e => simp only []; rw [view_setValueVersion]; simp [updState_ne_deleted]

/-- increment adds exactly its argument to an integer (absent = 0) value … -/
theorem incValue_ok_view (db db' : Db) (k : Bytes) (inc : Int) (op : Nat) (ps : List Push)
    (h : db.incValue k inc op = (db', .ok, ps)) :
    ∃ cur, specNumeric db.view k = some cur ∧ Bytes.fitsI32 (cur + inc) = true ∧ db.versionCapped k = false ∧
      db'.view = fupd db.view k (some (Bytes.ofInt (cur + inc))) := by
  unfold Db.incValue at h
  rw [incText_view] at h
  cases hp : Bytes.parseI32 ((db.view k).getD Gen.zero) with
  | none => simp [hp] at h
  | some cur =>
    simp only [hp] at h
    split at h
    · rename_i hf
      split at h
      · simp at h
      · rename_i hcap
        simp only [Prod.mk.injEq] at h
        exact ⟨cur, hp, hf, by simpa using hcap, by rw [← h.1]; exact incStore_view _ _ _ _⟩
    · simp at h

/-- … and refuses non-numeric text without changing anything … -/
theorem incValue_notNumeric (db db' : Db) (k : Bytes) (inc : Int) (op : Nat) (ps : List Push)
    (h : db.incValue k inc op = (db', .notNumeric, ps)) :
    specNumeric db.view k = none ∧ db' = db ∧ ps = [] := by
  unfold Db.incValue at h
  rw [incText_view] at h
  cases hp : Bytes.parseI32 ((db.view k).getD Gen.zero) with
  | none => simp only [hp, Prod.mk.injEq] at h; exact ⟨hp, h.1.symm, h.2.2.symm⟩
  | some cur =>
    simp only [hp] at h
    split at h
    · split at h <;> simp at h
    · simp at h

/-- … and a sum outside `i32` likewise … -/
theorem incValue_overflow (db db' : Db) (k : Bytes) (inc : Int) (op : Nat) (ps : List Push)
    (h : db.incValue k inc op = (db', .overflow, ps)) :
    (∃ cur, specNumeric db.view k = some cur ∧ Bytes.fitsI32 (cur + inc) = false) ∧ db' = db ∧ ps = [] := by
  unfold Db.incValue at h
  rw [incText_view] at h
  cases hp : Bytes.parseI32 ((db.view k).getD Gen.zero) with
  | none => simp [hp] at h
  | some cur =>
    simp only [hp] at h
    split at h
    · split at h <;> simp at h
    · rename_i hf
      simp only [Prod.mk.injEq] at h
      exact ⟨⟨cur, hp, by simpa using hf⟩, h.1.symm, h.2.2.symm⟩

/-- … and so does a key whose version counter sits at `i32::MAX`. -/
theorem incValue_versionCap (db db' : Db) (k : Bytes) (inc : Int) (op : Nat) (ps : List Push)
    (h : db.incValue k inc op = (db', .versionCap, ps)) :
    db.versionCapped k = true ∧ db' = db ∧ ps = [] := by
  unfold Db.incValue at h
  split at h
  · split at h
    · split at h
      · rename_i hcap
        simp only [Prod.mk.injEq] at h
        exact ⟨hcap, h.1.symm, h.2.2.symm⟩
      · simp at h
    · simp at h
  · simp at h

theorem incValue_tombInv (db : Db) (k : Bytes) (inc : Int) (op : Nat) (h : TombInv db) :
    TombInv (db.incValue k inc op).1 := by
  unfold Db.incValue
  split
  · split
    · split
      · exact h
      · simp only [Db.incStore]
        split
        · exact tombInv_setValueVersion _ _ _ _ _ _ _ _ h (fun e => absurd e (updState_ne_deleted _))
        · exact tombInv_setValueVersion _ _ _ _ _ _ _ _ h (by simp)
    · exact h
  · exact h

end Nun

namespace Nun

theorem mem_insertSorted (k x : Bytes) (l : List Bytes) : x ∈ Bytes.insertSorted k l ↔ x = k ∨ x ∈ l := by
  induction l with
  | nil => simp [Bytes.insertSorted]
  | cons y ys ih =>
    unfold Bytes.insertSorted
    split
    · simp only [List.mem_cons, ih]
      constructor
      · rintro (h | h | h) <;> simp [h]
      · rintro (h | h | h) <;> simp [h]
    · simp [List.mem_cons]

theorem mem_sort (x : Bytes) (l : List Bytes) : x ∈ Bytes.sort l ↔ x ∈ l := by
  induction l with
  | nil => simp [Bytes.sort]
  | cons y ys ih =>
    simp only [Bytes.sort, List.foldr_cons] at ih ⊢
    rw [mem_insertSorted, ih]; simp

/-- `keys` lists exactly the live keys matching the pattern, hiding `$$` keys unless `system` -/
theorem listKeys_mem (db : Db) (hn : AL.NoDupKeys db.map) (pat k : Bytes) (system : Bool) :
    k ∈ db.listKeys pat system ↔
      ((db.view k).isSome ∧ (system = true ∨ Bytes.startsWith k Gen.securePrefix = false) ∧ patternMatch pat k = true) := by
  unfold Db.listKeys
  rw [mem_sort]
  simp only [List.mem_map, List.mem_filter, Prod.exists, exists_and_right, exists_eq_right]
  constructor
  · rintro ⟨e, hmem, hcond⟩
    have hg := (AL.mem_iff_get?_of_noDup db.map k e hn).mp hmem
    simp only [Bool.and_eq_true, Bool.or_eq_true, Bool.not_eq_eq_eq_not, Bool.not_true, bne_iff_ne, ne_eq] at hcond
    obtain ⟨⟨hv, hl⟩, hp⟩ := hcond
    refine ⟨?_, hv, hp⟩
    simp [Db.view, hg, Entry.live, hl]
  · rintro ⟨hsome, hv, hp⟩
    unfold Db.view at hsome
    cases hg : AL.get? db.map k with
    | none => simp [hg] at hsome
    | some e =>
      simp only [hg] at hsome
      have hl : e.live = true := by
        by_cases hl : e.live = true
        · exact hl
        · simp [hl] at hsome
      refine ⟨e, (AL.mem_iff_get?_of_noDup db.map k e hn).mpr hg, ?_⟩
      simp only [Bool.and_eq_true, Bool.or_eq_true, Bool.not_eq_eq_eq_not, Bool.not_true, bne_iff_ne, ne_eq]
      refine ⟨⟨hv, ?_⟩, hp⟩
      simpa [Entry.live] using hl

theorem noDup_setValueVersion (db : Db) (k v : Bytes) (ver : Int) (st : Status) (va ka op : Nat)
    (h : AL.NoDupKeys db.map) : AL.NoDupKeys (db.setValueVersion k v ver st va ka op).map :=
  AL.noDupKeys_put _ _ _ h

theorem setValue_noDup (db : Db) (c : Change) (h : AL.NoDupKeys db.map) : AL.NoDupKeys (db.setValue c).1.map := by
  unfold Db.setValue
  cases db.getValue c.key with
  | none => exact noDup_setValueVersion _ _ _ _ _ _ _ _ h
  | some old =>
    simp only []
    split
    · exact h
    · exact noDup_setValueVersion _ _ _ _ _ _ _ _ h

theorem incValue_noDup (db : Db) (k : Bytes) (inc : Int) (op : Nat) (h : AL.NoDupKeys db.map) :
    AL.NoDupKeys (db.incValue k inc op).1.map := by
  unfold Db.incValue
  split
  · split
    · split
      · exact h
      · simp only [Db.incStore]
        split <;> exact noDup_setValueVersion _ _ _ _ _ _ _ _ h
    · exact h
  · exact h

theorem removeValue_noDup (db db' : Db) (k : Bytes) (ps : List Push) (h : AL.NoDupKeys db.map)
    (hr : db.removeValue k = some (db', ps)) : AL.NoDupKeys db'.map := by
  unfold Db.removeValue at hr
  split at hr
  · simp at hr
  · simp only [Option.some.injEq, Prod.mk.injEq] at hr
    rw [← hr.1]
    cases db.getValue k with
    | none => exact h
    | some e =>
      simp only []
      split
      · exact AL.noDupKeys_erase _ _ h
      · exact noDup_setValueVersion _ _ _ _ _ _ _ _ h

end Nun
