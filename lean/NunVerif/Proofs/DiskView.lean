import NunVerif.Model.Disk
import NunVerif.Proofs.Kv
/-! The in-memory effect of a snapshot never changes what the database stands for. -/
namespace Nun

theorem mem_insertByIx (o : List Bytes) (x p : Bytes × Entry) (l : List (Bytes × Entry)) :
    p ∈ insertByIx o x l ↔ p = x ∨ p ∈ l := by
  induction l with
  | nil => simp [insertByIx]
  | cons y ys ih =>
    unfold insertByIx
    split
    · simp only [List.mem_cons, ih]
      constructor
      · rintro (h | h | h) <;> simp [h]
      · rintro (h | h | h) <;> simp [h]
    · simp [List.mem_cons]

theorem keysNodup_insertByIx (o : List Bytes) (x : Bytes × Entry) (l : List (Bytes × Entry))
    (hx : x.1 ∉ l.map (·.1)) (hl : (l.map (·.1)).Nodup) : ((insertByIx o x l).map (·.1)).Nodup := by
  induction l with
  | nil => simp [insertByIx]
  | cons y ys ih =>
    simp only [List.map_cons, List.mem_cons, not_or, List.nodup_cons] at hx hl
    unfold insertByIx
    split
    · simp only [List.map_cons, List.nodup_cons]
      refine ⟨?_, ih hx.2 hl.2⟩
      intro hmem
      simp only [List.mem_map] at hmem
      obtain ⟨p, hp, hpk⟩ := hmem
      rcases (mem_insertByIx o x p ys).mp hp with h | h
      · rw [h] at hpk; exact hx.1 hpk
      · exact hl.1 (List.mem_map.mpr ⟨p, h, hpk⟩)
    · simp only [List.map_cons, List.nodup_cons, List.mem_cons, not_or]
      exact ⟨⟨hx.1, hx.2⟩, hl.1, hl.2⟩

theorem sortByIx_spec (o : List Bytes) (l : List (Bytes × Entry)) (hl : (l.map (·.1)).Nodup) :
    ((l.foldr (insertByIx o) []).map (·.1)).Nodup ∧ ∀ p, p ∈ l.foldr (insertByIx o) [] ↔ p ∈ l := by
  induction l with
  | nil => simp
  | cons x xs ih =>
    simp only [List.map_cons, List.nodup_cons] at hl
    obtain ⟨hn, hm⟩ := ih hl.2
    simp only [List.foldr_cons]
    constructor
    · apply keysNodup_insertByIx _ _ _ _ hn
      intro hmem
      simp only [List.mem_map] at hmem
      obtain ⟨p, hp, hpk⟩ := hmem
      exact hl.1 (List.mem_map.mpr ⟨p, (hm p).mp hp, hpk⟩)
    · intro p; rw [mem_insertByIx, hm]; simp [List.mem_cons]

/-- all stored versions are non-negative (so no entry is at the in-conflict marker) -/
def VerInv (db : Db) : Prop := ∀ k e, AL.get? db.map k = some e → 0 ≤ e.version ∧ e.version ≤ 2147483647

structure Db.WF (db : Db) : Prop where
  nodup : AL.NoDupKeys db.map
  tomb : TombInv db
  ver : VerInv db

theorem verInv_setValueVersion (db : Db) (k v : Bytes) (ver : Int) (st : Status) (va ka op : Nat)
    (h : VerInv db) (hv : 0 ≤ ver ∧ ver ≤ 2147483647) : VerInv (db.setValueVersion k v ver st va ka op) := by
  intro k' e hg
  simp only [Db.setValueVersion, AL.get?_put] at hg
  split at hg
  · simp only [Option.some.injEq] at hg; subst hg; exact hv
  · exact h k' e hg

theorem snapKey_spec (reclaim : Bool) (name : Bytes) (s : SnapSt) (k : Bytes) (e : Entry)
    (hg : AL.get? s.db.map k = some e) (hw : s.db.WF) :
    (snapKey reclaim name s k e).db.view = s.db.view ∧ (snapKey reclaim name s k e).db.WF ∧
    ∀ k', k' ≠ k → AL.get? (snapKey reclaim name s k e).db.map k' = AL.get? s.db.map k' := by
  have key : ∀ (va ka op : Nat), e.state ≠ .deleted →
      (s.db.setValueVersion k e.value e.version .ok va ka op).view = s.db.view ∧
      (s.db.setValueVersion k e.value e.version .ok va ka op).WF ∧
      ∀ k', k' ≠ k → AL.get? (s.db.setValueVersion k e.value e.version .ok va ka op).map k' = AL.get? s.db.map k' := by
    intro va ka op hst
    refine ⟨?_, ⟨noDup_setValueVersion _ _ _ _ _ _ _ _ hw.nodup,
      tombInv_setValueVersion _ _ _ _ _ _ _ _ hw.tomb (by simp),
      verInv_setValueVersion _ _ _ _ _ _ _ _ hw.ver (hw.ver k e hg)⟩, ?_⟩
    · rw [view_setValueVersion]
      funext k'
      simp only [fupd]
      by_cases h : k' = k
      · subst h; simp [Db.view, hg, Entry.live, hst]
      · simp [h]
    · intro k' hne
      simp only [Db.setValueVersion]
      exact AL.get?_put_other _ _ (fun h => hne h.symm)
  unfold snapKey
  cases hst : e.state with
  | ok =>
    simp only []
    cases reclaim with
    | true => simpa using key _ _ _ (by simp [hst])
    | false => simp [hw]
  | new => simpa using key _ _ _ (by simp [hst])
  | updated =>
    simp only []
    cases reclaim with
    | true => simpa using key _ _ _ (by simp [hst])
    | false => simpa using key _ _ _ (by simp [hst])
  | deleted =>
    simp only []
    cases reclaim with
    | false => simp [hw]
    | true =>
      have hgv : s.db.getValue k = some e := hg
      simp only [Bool.not_true, Bool.false_eq_true, if_false, hgv, hst, if_true]
      refine ⟨?_, ⟨AL.noDupKeys_erase _ _ hw.nodup, ?_, ?_⟩, ?_⟩
      · rw [view_erase]
        funext k'
        simp only [fupd]
        by_cases h : k' = k
        · subst h; simp [Db.view, hg, Entry.live, hst]
        · simp [h]
      · intro k' e' hg' hd
        simp only [AL.get?_erase] at hg'
        split at hg'
        · simp at hg'
        · exact hw.tomb k' e' hg' hd
      · intro k' e' hg'
        simp only [AL.get?_erase] at hg'
        split at hg'
        · simp at hg'
        · exact hw.ver k' e' hg'
      · intro k' hne
        exact AL.get?_erase_other _ (fun h => hne h.symm)

theorem snapFold_spec (reclaim : Bool) (name : Bytes) :
    ∀ (todo : List (Bytes × Entry)) (s : SnapSt),
      (todo.map (·.1)).Nodup → (∀ p ∈ todo, AL.get? s.db.map p.1 = some p.2) → s.db.WF →
      (todo.foldl (fun s (p : Bytes × Entry) => snapKey reclaim name s p.1 p.2) s).db.view = s.db.view ∧
      (todo.foldl (fun s (p : Bytes × Entry) => snapKey reclaim name s p.1 p.2) s).db.WF := by
  intro todo
  induction todo with
  | nil => intro s _ _ hw; exact ⟨rfl, hw⟩
  | cons p ps ih =>
    intro s hn hget hw
    simp only [List.map_cons, List.nodup_cons] at hn
    simp only [List.foldl_cons]
    obtain ⟨hv, hw', hother⟩ := snapKey_spec reclaim name s p.1 p.2 (hget p (by simp)) hw
    have hget' : ∀ q ∈ ps, AL.get? (snapKey reclaim name s p.1 p.2).db.map q.1 = some q.2 := by
      intro q hq
      rw [hother q.1 (fun h => hn.1 (List.mem_map.mpr ⟨q, hq, h⟩))]
      exact hget q (by simp [hq])
    obtain ⟨hv2, hw2⟩ := ih _ hn.2 hget' hw'
    exact ⟨hv2.trans hv, hw2⟩

/-- a snapshot (either mode, any key order) leaves the plain map and well-formedness untouched -/
theorem snapshotDb_view (db : Db) (fs : Fs) (reclaim : Bool) (order : List Bytes) (clock : Nat) (hw : db.WF) :
    (snapshotDb db fs reclaim order clock).1.view = db.view ∧ (snapshotDb db fs reclaim order clock).1.WF := by
  unfold snapshotDb
  simp only []
  have hsub : ((db.map.filter fun (x : Bytes × Entry) => x.2.state != .ok || reclaim).map (·.1)).Nodup :=
    List.Nodup.sublist (List.Sublist.map _ List.filter_sublist) hw.nodup
  obtain ⟨hn, hm⟩ := sortByIx_spec order _ hsub
  have hget : ∀ p ∈ (db.map.filter fun (x : Bytes × Entry) => x.2.state != .ok || reclaim).foldr (insertByIx order) [],
      AL.get? db.map p.1 = some p.2 := by
    intro p hp
    have := (hm p).mp hp
    exact AL.get?_of_mem_noDup db.map p.1 p.2 hw.nodup (List.mem_filter.mp this).1
  exact snapFold_spec reclaim db.name _ _ hn hget hw


/-- entries keep their value and version through a snapshot; only status, addresses and op id move -/
def SameData (m m' : KV) : Prop :=
  ∀ k, match AL.get? m k, AL.get? m' k with
    | some x, some x' => x'.version = x.version ∧ x'.value = x.value ∧ (x.state = .deleted ↔ x'.state = .deleted)
    | none, none => True
    | some x, none => x.state = .deleted   -- a tombstone dropped by a reclaiming snapshot
    | none, some _ => False

theorem sameData_refl (m : KV) : SameData m m := by
  intro k; cases AL.get? m k <;> simp

theorem sameData_trans {a b c : KV} (h1 : SameData a b) (h2 : SameData b c) : SameData a c := by
  intro k
  have := h1 k; have := h2 k
  cases ha : AL.get? a k <;> cases hb : AL.get? b k <;> cases hc : AL.get? c k <;> simp_all

theorem snapKey_sameData (reclaim : Bool) (name : Bytes) (s : SnapSt) (k : Bytes) (e : Entry)
    (hg : AL.get? s.db.map k = some e) : SameData s.db.map (snapKey reclaim name s k e).db.map := by
  have key : ∀ (va ka op : Nat), e.state ≠ .deleted → SameData s.db.map (s.db.setValueVersion k e.value e.version .ok va ka op).map := by
    intro va ka op hnd k'
    simp only [Db.setValueVersion, AL.get?_put]
    by_cases h : k = k'
    · subst h; simp [hg, hnd]
    · simp only [h, if_false]; cases AL.get? s.db.map k' <;> simp
  unfold snapKey
  cases hst : e.state with
  | ok => cases reclaim <;> simp only [] <;> first | exact key _ _ _ (by simp [hst]) | exact sameData_refl _
  | new => exact key _ _ _ (by simp [hst])
  | updated => cases reclaim <;> simp only [] <;> exact key _ _ _ (by simp [hst])
  | deleted =>
    cases reclaim with
    | false => simp only []; exact sameData_refl _
    | true =>
      have hgv : s.db.getValue k = some e := hg
      simp only [Bool.not_true, Bool.false_eq_true, if_false, hgv, hst, if_true]
      intro k'
      simp only [AL.get?_erase]
      by_cases h : k = k'
      · subst h; simp [hg, hst]
      · simp only [h, if_false]; cases AL.get? s.db.map k' <;> simp

theorem snapFold_sameData (reclaim : Bool) (name : Bytes) :
    ∀ (todo : List (Bytes × Entry)) (s : SnapSt),
      (todo.map (·.1)).Nodup → (∀ p ∈ todo, AL.get? s.db.map p.1 = some p.2) → s.db.WF →
      SameData s.db.map (todo.foldl (fun s (p : Bytes × Entry) => snapKey reclaim name s p.1 p.2) s).db.map := by
  intro todo
  induction todo with
  | nil => intro s _ _ _; exact sameData_refl _
  | cons p ps ih =>
    intro s hn hget hw
    simp only [List.map_cons, List.nodup_cons] at hn
    simp only [List.foldl_cons]
    obtain ⟨_, hw', hother⟩ := snapKey_spec reclaim name s p.1 p.2 (hget p (by simp)) hw
    have hget' : ∀ q ∈ ps, AL.get? (snapKey reclaim name s p.1 p.2).db.map q.1 = some q.2 := by
      intro q hq
      rw [hother q.1 (fun h => hn.1 (List.mem_map.mpr ⟨q, hq, h⟩))]
      exact hget q (by simp [hq])
    exact sameData_trans (snapKey_sameData reclaim name s p.1 p.2 (hget p (by simp))) (ih _ hn.2 hget' hw')

theorem snapshotDb_sameData (db : Db) (fs : Fs) (reclaim : Bool) (order : List Bytes) (clock : Nat) (hw : db.WF) :
    SameData db.map (snapshotDb db fs reclaim order clock).1.map := by
  unfold snapshotDb
  simp only []
  have hsub : ((db.map.filter fun (x : Bytes × Entry) => x.2.state != .ok || reclaim).map (·.1)).Nodup :=
    List.Nodup.sublist (List.Sublist.map _ List.filter_sublist) hw.nodup
  obtain ⟨hn, hm⟩ := sortByIx_spec order _ hsub
  have hget : ∀ p ∈ (db.map.filter fun (x : Bytes × Entry) => x.2.state != .ok || reclaim).foldr (insertByIx order) [],
      AL.get? db.map p.1 = some p.2 := by
    intro p hp
    have := (hm p).mp hp
    exact AL.get?_of_mem_noDup db.map p.1 p.2 hw.nodup (List.mem_filter.mp this).1
  exact snapFold_sameData reclaim db.name _ ⟨db, _, _, _, clock⟩ hn hget hw

end Nun
