import NunVerif.Props.C06RoundTrip
/-!
# The on-disk invariant of a database (`DiskInv`) — for the incremental snapshot mode

The keys file is a list of records `KRec` (one per key that was ever persisted, rewritten in place),
the values file an append-only list of value records.  `DiskInv` links every in-memory entry to the
bytes: a `New` entry has no record; any other entry has its record at byte offset `kaddr`; an `Ok`
entry's record carries its version and points at its value.  `loadLoop_recs`: what the loader reads
from such files.  `pwrite_record` / `encRecs_setRec`: the in-place update as bytes.
-/
namespace Nun

/-- one record of the keys file -/
structure KRec where
  /-- the key the record belongs to, as memory knows it; for an orphan tombstone (a removed key's record that survived a restart,
  which no entry refers to any more) a ghost name that is no key at all -/
  key : Bytes
  /-- the key bytes on disk -/
  bkey : Bytes
  ver : Int
  va : Nat
  /-- ghost: the value stored at `va` in the values file (not part of the record's bytes) -/
  v : Bytes
deriving Repr

def KRec.enc (r : KRec) : Bytes := encKey r.bkey r.ver r.va
def encRecs (rs : List KRec) : Bytes := rs.flatMap KRec.enc
def encVals (vs : List Bytes) : Bytes := vs.flatMap encValue

theorem encRecs_append (a b : List KRec) : encRecs (a ++ b) = encRecs a ++ encRecs b := by simp [encRecs]
theorem encRecs_cons (r : KRec) (t : List KRec) : encRecs (r :: t) = r.enc ++ encRecs t := by simp [encRecs]
theorem encVals_append (a b : List Bytes) : encVals (a ++ b) = encVals a ++ encVals b := by simp [encVals]
theorem encVals_cons (v : Bytes) (t : List Bytes) : encVals (v :: t) = encValue v ++ encVals t := by simp [encVals]
theorem KRec.enc_length (r : KRec) : r.enc.length = keyRecSize r.bkey.length := C06_key_record_size _ _ _

/-- overwriting the middle of a file -/
theorem pwriteBytes_mid (a x b data : Bytes) (h : x.length = data.length) :
    pwriteBytes (a ++ (x ++ b)) a.length data = a ++ (data ++ b) := by
  unfold pwriteBytes
  have h1 : a.length - (a ++ (x ++ b)).length = 0 := by simp
  simp only [h1, List.replicate_zero, List.append_nil]
  rw [List.take_left]
  have : a.length + data.length = (a ++ x).length := by simp [h]
  rw [this, ← List.append_assoc, List.drop_left]
  simp [List.append_assoc]

/-- the in-place update of a key record: version and value address rewritten, nothing else moves -/
theorem pwrite_record (pre post : Bytes) (k : Bytes) (ver ver' : Int) (va va' : Nat) :
    pwriteBytes (pwriteBytes (pre ++ (encKey k ver va ++ post)) (pre.length + keyRecSize k.length - 12) (le32i ver'))
      (pre.length + keyRecSize k.length - 12 + 4) (le64 va')
    = pre ++ (encKey k ver' va' ++ post) := by
  have hpos : pre.length + keyRecSize k.length - 12 = (pre ++ (le64 k.length ++ k)).length := by
    simp [keyRecSize, le64_length]; omega
  have e0 : pre ++ (encKey k ver va ++ post) = (pre ++ (le64 k.length ++ k)) ++ (le32i ver ++ (le64 va ++ post)) := by
    simp [encKey, List.append_assoc]
  rw [e0, hpos, pwriteBytes_mid _ _ _ _ (by simp [le32i_length])]
  have hpos2 : (pre ++ (le64 k.length ++ k)).length + 4 = ((pre ++ (le64 k.length ++ k)) ++ le32i ver').length := by
    simp [le32i_length]; omega
  have e1 : (pre ++ (le64 k.length ++ k)) ++ (le32i ver' ++ (le64 va ++ post)) = ((pre ++ (le64 k.length ++ k)) ++ le32i ver') ++ (le64 va ++ post) := by
    simp [List.append_assoc]
  rw [e1, hpos2, pwriteBytes_mid _ _ _ _ (by simp [le64_length])]
  simp [encKey, List.append_assoc]

/-- the values file holds the record of `v` at offset `va` -/
def ValAt (values : Bytes) (va : Nat) (v : Bytes) : Prop := ∃ pre post, values = pre ++ (encValue v ++ post) ∧ pre.length = va

structure GoodRec (values : Bytes) (r : KRec) : Prop where
  klen : r.bkey.length < allocBound
  kutf : validUtf8 r.bkey = true
  verLo : -2147483648 ≤ r.ver
  verHi : r.ver ≤ 2147483647
  vaFit : r.va < 18446744073709551616
  vlen : r.v.length < allocBound
  vutf : validUtf8 r.v = true
  val : ValAt values r.va r.v

/-- what the loader builds from the records: tombstones (version -1) are skipped -/
def loadedRecs : List KRec → Nat → Nat → KV → KV
  | [], _, _, m => m
  | r :: t, ka, clock, m =>
    if r.ver != -1 then
      loadedRecs t (ka + keyRecSize r.bkey.length) (clock + 1)
        (AL.put m r.bkey { value := r.v, version := r.ver, opId := clock, state := .ok, vaddr := r.va, kaddr := ka })
    else loadedRecs t (ka + keyRecSize r.bkey.length) clock m

def liveRecs : List KRec → Nat
  | [] => 0
  | r :: t => (if r.ver != -1 then 1 else 0) + liveRecs t

theorem loadLoop_recs (values : Bytes) (rs : List KRec) : ∀ (kpre : Bytes) (fuel : Nat) (st : LoadSt),
    (∀ r ∈ rs, GoodRec values r) →
    st.pos = kpre.length → st.lenBuf.length = 8 → st.addrBuf.length = 8 → st.verBuf.length = 4 →
    rs.length < fuel →
    loadLoop (kpre ++ encRecs rs) values fuel st
      = (.ok (loadedRecs rs st.kaddr st.clock st.map), st.clock + liveRecs rs) := by
  induction rs with
  | nil =>
    intro kpre fuel st _ hpos _ _ _ hfuel
    cases fuel with
    | zero => simp at hfuel
    | succ f =>
      simp only [encRecs, List.flatMap_nil, List.append_nil, loadLoop, loadedRecs, liveRecs, Nat.add_zero]
      have h0 := readInto_end st.lenBuf kpre st.pos hpos
      generalize hr : readInto st.lenBuf kpre st.pos = r at h0
      obtain ⟨b, n⟩ := r
      simp only [] at h0
      subst h0
      simp
  | cons r t ih =>
    intro kpre fuel st hg hpos hl8 ha8 hv4 hfuel
    have hG := hg r List.mem_cons_self
    obtain ⟨vp, vq, hvals, hvp⟩ := hG.val
    cases fuel with
    | zero => simp at hfuel
    | succ f =>
      have hkeys : kpre ++ encRecs (r :: t)
          = kpre ++ (le64 r.bkey.length ++ (r.bkey ++ (le32i r.ver ++ (le64 r.va ++ encRecs t)))) := by
        simp [encRecs_cons, KRec.enc, encKey, List.append_assoc]
      have hvals' : values = vp ++ (le64 r.v.length ++ (r.v ++ (le32i 0 ++ vq))) := by
        rw [hvals]; simp [encValue, List.append_assoc]
      have hkl : r.bkey.length < 18446744073709551616 := Nat.lt_trans hG.klen allocBound_lt
      have hvl : r.v.length < 18446744073709551616 := Nat.lt_trans hG.vlen allocBound_lt
      have r1 := readInto_at st.lenBuf _ kpre (le64 r.bkey.length) (r.bkey ++ (le32i r.ver ++ (le64 r.va ++ encRecs t))) st.pos rfl
        (by rw [le64_length, hl8]) hpos
      have r2 := readInto_at (List.replicate r.bkey.length 0) (kpre ++ (le64 r.bkey.length ++ (r.bkey ++ (le32i r.ver ++ (le64 r.va ++ encRecs t)))))
        (kpre ++ le64 r.bkey.length) r.bkey (le32i r.ver ++ (le64 r.va ++ encRecs t)) (st.pos + 8)
        (by simp [List.append_assoc]) (by simp) (by simp [le64_length, hpos])
      have r3 := readInto_at st.verBuf (kpre ++ (le64 r.bkey.length ++ (r.bkey ++ (le32i r.ver ++ (le64 r.va ++ encRecs t)))))
        (kpre ++ le64 r.bkey.length ++ r.bkey) (le32i r.ver) (le64 r.va ++ encRecs t) (st.pos + 8 + r.bkey.length)
        (by simp [List.append_assoc]) (by rw [le32i_length, hv4]) (by simp [le64_length, hpos]; omega)
      have r4 := readInto_at st.addrBuf (kpre ++ (le64 r.bkey.length ++ (r.bkey ++ (le32i r.ver ++ (le64 r.va ++ encRecs t)))))
        (kpre ++ le64 r.bkey.length ++ r.bkey ++ le32i r.ver) (le64 r.va) (encRecs t) (st.pos + 8 + r.bkey.length + 4)
        (by simp [List.append_assoc]) (by rw [le64_length, ha8]) (by simp [le64_length, le32i_length, hpos]; omega)
      have r5 := readInto_at (le64 r.bkey.length) values vp (le64 r.v.length) (r.v ++ (le32i 0 ++ vq)) r.va hvals'
        (by rw [le64_length, le64_length]) hvp.symm
      have r6 := readInto_at (List.replicate r.v.length 0) values (vp ++ le64 r.v.length) r.v (le32i 0 ++ vq) (r.va + 8)
        (by rw [hvals']; simp [List.append_assoc]) (by simp) (by simp [le64_length, hvp])
      rw [hkeys, loadLoop]
      simp only [r1, r2, r3, r4, le64_length, le32i_length, C06_le64_roundtrip r.bkey.length hkl, C06_le64_roundtrip r.va hG.vaFit, r5,
        C06_le64_roundtrip r.v.length hvl, r6, C06_version_roundtrip r.ver hG.verLo hG.verHi]
      have hk1 : ¬ r.bkey.length ≥ allocBound := Nat.not_le.2 hG.klen
      have hv1 : ¬ r.v.length ≥ allocBound := Nat.not_le.2 hG.vlen
      simp only [hk1, hv1, hG.kutf, hG.vutf, if_false, Bool.not_true, Bool.false_eq_true, show (8 : Nat) ≠ 0 by decide]
      have hklen' : (kpre ++ r.enc).length = st.pos + 8 + r.bkey.length + 4 + 8 := by
        simp [KRec.enc_length, keyRecSize, hpos]; omega
      have e1 : kpre ++ (le64 r.bkey.length ++ (r.bkey ++ (le32i r.ver ++ (le64 r.va ++ encRecs t))))
          = kpre ++ r.enc ++ encRecs t := by simp [KRec.enc, encKey, List.append_assoc]
      rw [e1]
      by_cases hver : (r.ver != -1) = true
      · simp only [hver, if_true, loadedRecs, liveRecs]
        have h := ih (kpre ++ r.enc) f
          { pos := st.pos + 8 + r.bkey.length + 4 + 8, lenBuf := le64 r.v.length, addrBuf := le64 r.va, verBuf := le32i r.ver,
            kaddr := st.kaddr + keyRecSize r.bkey.length,
            map := AL.put st.map r.bkey { value := r.v, version := r.ver, opId := st.clock, state := .ok, vaddr := r.va, kaddr := st.kaddr },
            clock := st.clock + 1 }
          (fun x hx => hg x (List.mem_cons_of_mem _ hx)) hklen'.symm (le64_length _) (le64_length _) (le32i_length _) (by simp at hfuel; omega)
        rw [h]; simp only [Nat.add_assoc]
      · simp only [hver, if_false, loadedRecs, liveRecs, Bool.false_eq_true, Nat.zero_add]
        have h := ih (kpre ++ r.enc) f
          { pos := st.pos + 8 + r.bkey.length + 4 + 8, lenBuf := le64 r.v.length, addrBuf := le64 r.va, verBuf := le32i r.ver,
            kaddr := st.kaddr + keyRecSize r.bkey.length, map := st.map, clock := st.clock }
          (fun x hx => hg x (List.mem_cons_of_mem _ hx)) hklen'.symm (le64_length _) (le64_length _) (le32i_length _) (by simp at hfuel; omega)
        rw [h]

/-- byte offset of the record of key `k` -/
def offOf : List KRec → Bytes → Option Nat
  | [], _ => none
  | r :: t, k => if r.key = k then some 0 else (offOf t k).map (· + keyRecSize r.bkey.length)

def getRec (rs : List KRec) (k : Bytes) : Option KRec := rs.find? (fun r => r.key = k)

/-- the record of key `k` rewritten in place -/
def setRec (rs : List KRec) (k : Bytes) (ver : Int) (va : Nat) (v : Bytes) : List KRec :=
  rs.map fun r => if r.key = k then { r with ver := ver, va := va, v := v } else r

theorem keys_setRec (rs : List KRec) (k : Bytes) (ver : Int) (va : Nat) (v : Bytes) :
    (setRec rs k ver va v).map (·.key) = rs.map (·.key) := by
  induction rs with
  | nil => rfl
  | cons r t ih => simp only [setRec, List.map_cons] at ih ⊢; rw [ih]; split <;> rfl

theorem offOf_setRec (rs : List KRec) (k k' : Bytes) (ver : Int) (va : Nat) (v : Bytes) :
    offOf (setRec rs k ver va v) k' = offOf rs k' := by
  induction rs with
  | nil => rfl
  | cons r t ih =>
    simp only [setRec, List.map_cons] at ih ⊢
    by_cases h : r.key = k
    · simp only [h, if_true, offOf]; rw [ih]
    · simp only [h, if_false, offOf]; rw [ih]

theorem offOf_none_iff (rs : List KRec) (k : Bytes) : offOf rs k = none ↔ k ∉ rs.map (·.key) := by
  induction rs with
  | nil => simp [offOf]
  | cons r t ih =>
    simp only [offOf, List.map_cons, List.mem_cons, not_or]
    by_cases h : r.key = k
    · simp [h]
    · simp only [h, if_false, Option.map_eq_none_iff, ih]
      constructor
      · intro h2; exact ⟨fun h3 => h h3.symm, h2⟩
      · intro h2; exact h2.2

theorem getRec_setRec_same (rs : List KRec) (k : Bytes) (ver : Int) (va : Nat) (v : Bytes) (h : k ∈ rs.map (·.key)) :
    ∃ r, getRec (setRec rs k ver va v) k = some r ∧ r.key = k ∧ r.ver = ver ∧ r.va = va ∧ r.v = v := by
  induction rs with
  | nil => simp at h
  | cons r t ih =>
    simp only [setRec, List.map_cons, getRec, List.find?_cons]
    by_cases hk : r.key = k
    · simp only [hk, if_true, decide_true]; exact ⟨_, rfl, rfl, rfl, rfl, rfl⟩
    · simp only [hk, if_false, decide_false]
      have : k ∈ t.map (·.key) := by
        simp only [List.map_cons, List.mem_cons] at h
        rcases h with h | h
        · exact absurd h.symm hk
        · exact h
      exact ih this

theorem getRec_setRec_other (rs : List KRec) (k k' : Bytes) (ver : Int) (va : Nat) (v : Bytes) (h : k ≠ k') :
    getRec (setRec rs k ver va v) k' = getRec rs k' := by
  induction rs with
  | nil => rfl
  | cons r t ih =>
    simp only [setRec, List.map_cons, getRec, List.find?_cons] at ih ⊢
    by_cases hk : r.key = k
    · have hk' : ¬ r.key = k' := fun h2 => h (hk.symm.trans h2)
      simp only [hk, if_true]
      have : ¬ k = k' := h
      simp only [this, decide_false, ih]
    · simp only [hk, if_false]
      by_cases hk2 : r.key = k'
      · simp [hk2]
      · simp [hk2, ih]

theorem offOf_append_mem (rs : List KRec) (x : KRec) (k : Bytes) (h : k ∈ rs.map (·.key)) : offOf (rs ++ [x]) k = offOf rs k := by
  induction rs with
  | nil => simp at h
  | cons r t ih =>
    simp only [List.cons_append, offOf]
    by_cases hk : r.key = k
    · simp [hk]
    · simp only [hk, if_false]
      have : k ∈ t.map (·.key) := by
        simp only [List.map_cons, List.mem_cons] at h
        rcases h with h | h
        · exact absurd h.symm hk
        · exact h
      rw [ih this]

theorem offOf_append_new (rs : List KRec) (x : KRec) (h : x.key ∉ rs.map (·.key)) : offOf (rs ++ [x]) x.key = some (encRecs rs).length := by
  induction rs with
  | nil => simp [offOf, encRecs]
  | cons r t ih =>
    simp only [List.map_cons, List.mem_cons, not_or] at h
    simp only [List.cons_append, offOf, show ¬ r.key = x.key from fun h2 => h.1 h2.symm, if_false, ih h.2, Option.map_some,
      encRecs_cons, List.length_append, KRec.enc_length]
    congr 1; omega

theorem getRec_append_mem (rs : List KRec) (x : KRec) (k : Bytes) (h : k ∈ rs.map (·.key)) : getRec (rs ++ [x]) k = getRec rs k := by
  unfold getRec
  rw [List.find?_append]
  obtain ⟨r, hr, hk⟩ := List.mem_map.1 h
  have : (rs.find? fun r => decide (r.key = k)).isSome := by
    rw [List.find?_isSome]; exact ⟨r, hr, by simp [hk]⟩
  cases hf : rs.find? fun r => decide (r.key = k) with
  | none => simp [hf] at this
  | some y => simp

theorem getRec_append_new (rs : List KRec) (x : KRec) (h : x.key ∉ rs.map (·.key)) : getRec (rs ++ [x]) x.key = some x := by
  unfold getRec
  rw [List.find?_append]
  have : rs.find? (fun r => decide (r.key = x.key)) = none := by
    rw [List.find?_eq_none]; intro r hr; simp only [decide_eq_true_eq]; intro hk
    exact h (List.mem_map.2 ⟨r, hr, hk⟩)
  simp [this]

/-- bytes of the in-place rewrite -/
theorem encRecs_setRec (rs : List KRec) (hn : (rs.map (·.key)).Nodup) (k : Bytes) (ka : Nat) (ver : Int) (va : Nat) (v : Bytes)
    (hb : ∀ r ∈ rs, r.key = k → r.bkey = k) (h : offOf rs k = some ka) :
    ∃ pre post ver0 va0, encRecs rs = pre ++ (encKey k ver0 va0 ++ post) ∧ pre.length = ka ∧
      encRecs (setRec rs k ver va v) = pre ++ (encKey k ver va ++ post) := by
  induction rs generalizing ka with
  | nil => simp [offOf] at h
  | cons r t ih =>
    simp only [List.map_cons, List.nodup_cons] at hn
    simp only [offOf] at h
    by_cases hk : r.key = k
    · simp only [hk, if_true, Option.some.injEq] at h
      subst h
      have hnot : k ∉ t.map (·.key) := hk ▸ hn.1
      have hset : setRec t k ver va v = t := by
        unfold setRec
        conv => rhs; rw [← List.map_id t]
        apply List.map_congr_left
        intro x hx
        have : ¬ x.key = k := fun h2 => hnot (List.mem_map.2 ⟨x, hx, h2⟩)
        simp [this]
      have hbk : r.bkey = k := hb r List.mem_cons_self hk
      refine ⟨[], encRecs t, r.ver, r.va, ?_, rfl, ?_⟩
      · simp [encRecs_cons, KRec.enc, hbk]
      · have : setRec (r :: t) k ver va v = { r with ver := ver, va := va, v := v } :: setRec t k ver va v := by
          simp [setRec, hk]
        rw [this, hset, encRecs_cons]; simp [KRec.enc, hbk]
    · simp only [hk, if_false] at h
      cases ho : offOf t k with
      | none => simp [ho] at h
      | some ka' =>
        simp only [ho, Option.map_some, Option.some.injEq] at h
        obtain ⟨pre, post, ver0, va0, h1, h2, h3⟩ := ih hn.2 ka' (fun x hx => hb x (List.mem_cons_of_mem _ hx)) ho
        refine ⟨r.enc ++ pre, post, ver0, va0, ?_, ?_, ?_⟩
        · rw [encRecs_cons, h1, List.append_assoc]
        · rw [List.length_append, KRec.enc_length, h2, ← h]; omega
        · have : setRec (r :: t) k ver va v = r :: setRec t k ver va v := by simp [setRec, hk]
          rw [this, encRecs_cons, h3, List.append_assoc]

structure GoodEntry (k : Bytes) (e : Entry) : Prop where
  klen : k.length < allocBound
  kutf : validUtf8 k = true
  verLo : -2147483648 ≤ e.version
  verHi : e.version ≤ 2147483647
  vlen : e.value.length < allocBound
  vutf : validUtf8 e.value = true

structure DiskInv (name : Bytes) (m : KV) (fs : Fs) (rs : List KRec) (vs : List Bytes) : Prop where
  keys : fs.read (keysFile name) = some (encRecs rs)
  values : fs.read (valuesFile name) = some (encVals vs)
  nodup : (rs.map (·.key)).Nodup
  good : ∀ r ∈ rs, GoodRec (encVals vs) r
  goodVals : ∀ v ∈ vs, v.length < allocBound ∧ validUtf8 v = true
  fresh : ∀ k e, AL.get? m k = some e → e.state = .new → offOf rs k = none
  stored : ∀ k e, AL.get? m k = some e → e.state ≠ .new → offOf rs k = some e.kaddr ∧
            (e.state = .ok → ∃ r, getRec rs k = some r ∧ r.ver = e.version ∧ r.v = e.value)
  known : ∀ k, offOf rs k ≠ none → validUtf8 k = true → ∃ e, AL.get? m k = some e ∧ e.state ≠ .new
  /-- a record's name is its key on disk — except orphan tombstones, whose ghost name is no valid key -/
  bk : ∀ r ∈ rs, r.bkey = r.key ∨ (validUtf8 r.key = false ∧ r.ver = -1)

/-- the key is in its post-snapshot condition: clean with a matching record, or a tombstone whose record says so -/
def CleanKey (m : KV) (rs : List KRec) (k : Bytes) : Prop :=
  ∀ e, AL.get? m k = some e → (e.state = .ok ∧ ∃ r, getRec rs k = some r ∧ r.ver = e.version ∧ r.v = e.value) ∨
                               (e.state = .deleted ∧ ∃ r, getRec rs k = some r ∧ r.ver = -1)

theorem valAt_append (values more : Bytes) (va : Nat) (v : Bytes) (h : ValAt values va v) : ValAt (values ++ more) va v := by
  obtain ⟨pre, post, h1, h2⟩ := h
  exact ⟨pre, post ++ more, by rw [h1]; simp [List.append_assoc], h2⟩

theorem goodRec_append (values more : Bytes) (r : KRec) (h : GoodRec values r) : GoodRec (values ++ more) r :=
  { h with val := valAt_append values more r.va r.v h.val }

theorem getRec_mem_key (rs : List KRec) (k : Bytes) (r : KRec) (h : getRec rs k = some r) : r ∈ rs ∧ r.key = k := by
  unfold getRec at h
  exact ⟨List.mem_of_find?_eq_some h, by simpa using List.find?_some h⟩

theorem mem_setRec (rs : List KRec) (k : Bytes) (ver : Int) (va : Nat) (v : Bytes) (x : KRec) (h : x ∈ setRec rs k ver va v) :
    (x ∈ rs ∧ x.key ≠ k) ∨ (x.key = k ∧ x.ver = ver ∧ x.va = va ∧ x.v = v ∧ ∃ r0 ∈ rs, r0.key = k ∧ x.bkey = r0.bkey) := by
  unfold setRec at h
  obtain ⟨r, hr, hx⟩ := List.mem_map.1 h
  by_cases hk : r.key = k
  · simp only [hk, if_true] at hx; subst hx; exact Or.inr ⟨rfl, rfl, rfl, rfl, r, hr, hk, rfl⟩
  · simp only [hk, if_false] at hx; subst hx; exact Or.inl ⟨hr, hk⟩

end Nun
