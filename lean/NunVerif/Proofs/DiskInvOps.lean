import NunVerif.Props.C06Incremental
/-!
# `DiskInv` under the other things that happen to a database

* memory operations (`set_value`, `inc_value`, `remove_value`): the disk is not touched, the link survives
  (`diskInv_setValue`, `diskInv_incValue`, `diskInv_removeValue`);
* a restart (`restart_inv`): the loaded map is linked to the same files again; tombstone records become
  orphans (ghost names `junk i` that are no UTF-8 text, so no key can collide with them).
-/
namespace Nun


/-- rewriting an existing entry in memory (the disk is not touched): a `New` entry stays `New`, any other
entry keeps its record position and is no longer clean -/
theorem diskInv_put_existing {name : Bytes} {m : KV} {fs : Fs} {rs : List KRec} {vs : List Bytes} (hinv : DiskInv name m fs rs vs)
    (k : Bytes) (old e' : Entry) (hg : AL.get? m k = some old) (hka : e'.kaddr = old.kaddr)
    (hnew : old.state = .new → e'.state = .new) (hold : old.state ≠ .new → e'.state ≠ .new ∧ e'.state ≠ .ok) :
    DiskInv name (AL.put m k e') fs rs vs := by
  apply diskInv_update hinv _ fs rs vs k hinv.keys hinv.values hinv.nodup hinv.good hinv.goodVals
  · intro k' hk'; exact AL.get?_put_other _ _ (Ne.symm hk')
  · intro _ _; rfl
  · intro _ _; rfl
  · intro e hge hs
    rw [AL.get?_put_same] at hge; cases hge
    by_cases ho : old.state = .new
    · exact hinv.fresh k old hg ho
    · exact absurd hs (hold ho).1
  · intro e hge hs
    rw [AL.get?_put_same] at hge; cases hge
    have ho : old.state ≠ .new := fun h => hs (hnew h)
    refine ⟨by rw [hka]; exact (hinv.stored k old hg ho).1, fun h => absurd h (hold ho).2⟩
  · intro ho hu
    obtain ⟨e, he, hs⟩ := hinv.known k ho hu
    rw [hg] at he; cases he
    exact ⟨e', AL.get?_put_same _ _ _, (hold hs).1⟩
  · exact hinv.bk

/-- a key that memory does not hold is written for the first time -/
theorem diskInv_put_absent {name : Bytes} {m : KV} {fs : Fs} {rs : List KRec} {vs : List Bytes} (hinv : DiskInv name m fs rs vs)
    (k : Bytes) (e' : Entry) (hg : AL.get? m k = none) (hu : validUtf8 k = true) (hs : e'.state = .new) :
    DiskInv name (AL.put m k e') fs rs vs := by
  have hoff : offOf rs k = none := by
    by_cases ho : offOf rs k = none
    · exact ho
    · obtain ⟨e, he, _⟩ := hinv.known k ho hu; rw [hg] at he; cases he
  apply diskInv_update hinv _ fs rs vs k hinv.keys hinv.values hinv.nodup hinv.good hinv.goodVals
  · intro k' hk'; exact AL.get?_put_other _ _ (Ne.symm hk')
  · intro _ _; rfl
  · intro _ _; rfl
  · intro _ _ _; exact hoff
  · intro e hge hne
    rw [AL.get?_put_same] at hge; cases hge; exact absurd hs hne
  · intro ho _; exact absurd hoff ho
  · exact hinv.bk

/-- a key that was never persisted is removed from memory -/
theorem diskInv_erase_new {name : Bytes} {m : KV} {fs : Fs} {rs : List KRec} {vs : List Bytes} (hinv : DiskInv name m fs rs vs)
    (k : Bytes) (old : Entry) (hg : AL.get? m k = some old) (hs : old.state = .new) :
    DiskInv name (AL.erase m k) fs rs vs := by
  have hoff := hinv.fresh k old hg hs
  apply diskInv_update hinv _ fs rs vs k hinv.keys hinv.values hinv.nodup hinv.good hinv.goodVals
  · intro k' hk'; exact AL.get?_erase_other _ (Ne.symm hk')
  · intro _ _; rfl
  · intro _ _; rfl
  · intro e hge _; rw [AL.get?_erase_same] at hge; cases hge
  · intro e hge _; rw [AL.get?_erase_same] at hge; cases hge
  · intro ho _; exact absurd hoff ho
  · exact hinv.bk

theorem updState_new (s : Status) (h : s = .new) : updState s = .new := by subst h; rfl
theorem updState_old (s : Status) (h : s ≠ .new) : updState s ≠ .new ∧ updState s ≠ .ok := by
  unfold updState; simp only [h, if_false]; exact ⟨by decide, by decide⟩

/-- `set_value` (every outcome) keeps the link between memory and disk -/
theorem diskInv_setValue {name : Bytes} (db : Db) {fs : Fs} {rs : List KRec} {vs : List Bytes} (hinv : DiskInv name db.map fs rs vs)
    (c : Change) (hu : validUtf8 c.key = true) : DiskInv name (db.setValue c).1.map fs rs vs := by
  unfold Db.setValue
  cases hg : db.getValue c.key with
  | none =>
    simp only []
    exact diskInv_put_absent hinv c.key _ hg hu rfl
  | some old =>
    simp only []
    split
    · exact hinv
    · exact diskInv_put_existing hinv c.key old _ hg rfl (updState_new _) (updState_old _)

/-- `inc_value` -/
theorem diskInv_incValue {name : Bytes} (db : Db) {fs : Fs} {rs : List KRec} {vs : List Bytes} (hinv : DiskInv name db.map fs rs vs)
    (k : Bytes) (inc : Int) (op : Nat) (hu : validUtf8 k = true) : DiskInv name (db.incValue k inc op).1.map fs rs vs := by
  unfold Db.incValue
  split
  · split
    · split
      · exact hinv
      · simp only [Db.incStore]
        cases hg : db.getValue k with
        | none => exact diskInv_put_absent hinv k _ hg hu rfl
        | some old => exact diskInv_put_existing hinv k old _ hg rfl (updState_new _) (updState_old _)
    · exact hinv
  · exact hinv

/-- `remove_value` -/
theorem diskInv_removeValue {name : Bytes} (db db' : Db) {fs : Fs} {rs : List KRec} {vs : List Bytes} (hinv : DiskInv name db.map fs rs vs)
    (k : Bytes) (ps : List Push) (h : db.removeValue k = some (db', ps)) : DiskInv name db'.map fs rs vs := by
  unfold Db.removeValue at h
  split at h
  · cases h
  · simp only [Option.some.injEq, Prod.mk.injEq] at h
    rw [← h.1]
    cases hg : db.getValue k with
    | none => exact hinv
    | some old =>
      simp only []
      split
      · rename_i hs; exact diskInv_erase_new hinv k old hg hs
      · rename_i hs
        exact diskInv_put_existing hinv k old _ hg rfl (fun h => absurd h hs) (fun _ => ⟨by simp, by simp⟩)



/-- a ghost name for an orphan tombstone: no UTF-8 text starts with 0xFF, so it is no key; names of different indices differ -/
def junk (i : Nat) : Bytes := List.replicate (i + 1) 255

theorem junk_invalid (i : Nat) : validUtf8 (junk i) = false := by
  simp only [junk, List.replicate_succ]
  unfold validUtf8
  simp

theorem junk_inj {i j : Nat} (h : junk i = junk j) : i = j := by
  have := congrArg List.length h
  simpa [junk] using this

/-- at a restart every tombstone record loses its owner: memory no longer has an entry for its key -/
def orphanizeFrom : Nat → List KRec → List KRec
  | _, [] => []
  | i, r :: t => (if r.ver = -1 then { r with key := junk i } else r) :: orphanizeFrom (i + 1) t

theorem encRecs_orphanize (rs : List KRec) : ∀ i, encRecs (orphanizeFrom i rs) = encRecs rs := by
  induction rs with
  | nil => intro _; rfl
  | cons r t ih =>
    intro i
    simp only [orphanizeFrom, encRecs_cons, ih]
    split <;> rfl

theorem mem_orphanize (rs : List KRec) : ∀ i x, x ∈ orphanizeFrom i rs →
    (x ∈ rs ∧ x.ver ≠ -1) ∨ (∃ j, i ≤ j ∧ x.key = junk j ∧ x.ver = -1 ∧ ∃ r ∈ rs, r.ver = -1 ∧ x.bkey = r.bkey ∧ x.va = r.va ∧ x.v = r.v) := by
  induction rs with
  | nil => intro _ _ h; cases h
  | cons r t ih =>
    intro i x hx
    simp only [orphanizeFrom, List.mem_cons] at hx
    rcases hx with hx | hx
    · by_cases hv : r.ver = -1
      · simp only [hv, if_true] at hx
        subst hx
        exact Or.inr ⟨i, Nat.le_refl _, rfl, rfl, r, List.mem_cons_self, hv, rfl, rfl, rfl⟩
      · simp only [hv, if_false] at hx
        subst hx; exact Or.inl ⟨List.mem_cons_self, hv⟩
    · rcases ih (i + 1) x hx with ⟨h1, h2⟩ | ⟨j, hj, h1, h2, r0, hr0, h3⟩
      · exact Or.inl ⟨List.mem_cons_of_mem _ h1, h2⟩
      · exact Or.inr ⟨j, by omega, h1, h2, r0, List.mem_cons_of_mem _ hr0, h3⟩

theorem nodup_orphanize (rs : List KRec) (hn : (rs.map (·.key)).Nodup) (hv : ∀ r ∈ rs, r.ver ≠ -1 → validUtf8 r.key = true) :
    ∀ i, ((orphanizeFrom i rs).map (·.key)).Nodup := by
  induction rs with
  | nil => intro _; simp [orphanizeFrom]
  | cons r t ih =>
    intro i
    simp only [List.map_cons, List.nodup_cons] at hn
    simp only [orphanizeFrom, List.map_cons, List.nodup_cons]
    refine ⟨?_, ih hn.2 (fun x hx => hv x (List.mem_cons_of_mem _ hx)) (i + 1)⟩
    intro hmem
    obtain ⟨x, hx, hxk⟩ := List.mem_map.1 hmem
    rcases mem_orphanize t (i + 1) x hx with ⟨h1, h2⟩ | ⟨j, hj, h1, _⟩
    · -- x is an untouched record of the tail
      by_cases hr : r.ver = -1
      · simp only [hr, if_true] at hxk
        have := hv x (List.mem_cons_of_mem _ h1) h2
        rw [hxk, junk_invalid] at this; cases this
      · simp only [hr, if_false] at hxk
        exact hn.1 (List.mem_map.2 ⟨x, h1, hxk⟩)
    · by_cases hr : r.ver = -1
      · simp only [hr, if_true] at hxk
        rw [h1] at hxk
        have := junk_inj hxk; omega
      · simp only [hr, if_false] at hxk
        have := hv r List.mem_cons_self hr
        rw [← hxk, h1, junk_invalid] at this; cases this

/-- for a real key, the relabelling changes nothing about where its live record is -/
theorem offOf_orphanize (rs : List KRec) (k : Bytes) (hu : validUtf8 k = true) : ∀ i,
    (∀ r, getRec rs k = some r → r.ver ≠ -1 → offOf (orphanizeFrom i rs) k = offOf rs k ∧ getRec (orphanizeFrom i rs) k = some r) ∧
    ((getRec rs k = none ∨ ∃ r, getRec rs k = some r ∧ r.ver = -1) → (rs.map (·.key)).Nodup → offOf (orphanizeFrom i rs) k = none) := by
  induction rs with
  | nil => intro _; simp [getRec, orphanizeFrom, offOf]
  | cons r t ih =>
    intro i
    obtain ⟨ih1, ih2⟩ := ih (i + 1)
    have hjk : junk i ≠ k := by intro h; rw [← h, junk_invalid] at hu; cases hu
    by_cases hk : r.key = k
    · have hget : getRec (r :: t) k = some r := by simp [getRec, hk]
      constructor
      · intro r' hr' hv
        rw [hget] at hr'; cases hr'
        simp [orphanizeFrom, hv, offOf, hk, getRec]
      · intro h hn
        simp only [List.map_cons, List.nodup_cons] at hn
        have hv : r.ver = -1 := by
          rcases h with h | ⟨r', hr', hv⟩
          · rw [hget] at h; cases h
          · rw [hget] at hr'; cases hr'; exact hv
        have hnot : k ∉ t.map (·.key) := hk ▸ hn.1
        have := ih2 (Or.inl (getRec_none_of_not_mem t k hnot)) hn.2
        simp [orphanizeFrom, hv, offOf, hjk, this]
    · have hget : getRec (r :: t) k = getRec t k := by simp [getRec, hk]
      have hhead : (if r.ver = -1 then { r with key := junk i } else r).key ≠ k := by
        split
        · exact hjk
        · exact hk
      have hbk : (if r.ver = -1 then { r with key := junk i } else r).bkey = r.bkey := by split <;> rfl
      constructor
      · intro r' hr' hv
        rw [hget] at hr'
        obtain ⟨h1, h2⟩ := ih1 r' hr' hv
        refine ⟨?_, ?_⟩
        · simp only [orphanizeFrom, offOf, hhead, if_false, hk, h1, hbk]
        · simp only [orphanizeFrom, getRec, List.find?_cons, hhead, decide_false]
          exact h2
      · intro h hn
        simp only [List.map_cons, List.nodup_cons] at hn
        rw [hget] at h
        have := ih2 h hn.2
        simp only [orphanizeFrom, offOf, hhead, if_false, this, Option.map_none]

/-- the part of `DiskInv` that speaks about the files alone (what survives a crash or a restart) -/
structure FilesOk (name : Bytes) (fs : Fs) (rs : List KRec) (vs : List Bytes) : Prop where
  keys : fs.read (keysFile name) = some (encRecs rs)
  values : fs.read (valuesFile name) = some (encVals vs)
  nodup : (rs.map (·.key)).Nodup
  good : ∀ r ∈ rs, GoodRec (encVals vs) r
  goodVals : ∀ v ∈ vs, v.length < allocBound ∧ validUtf8 v = true
  bk : ∀ r ∈ rs, r.bkey = r.key ∨ (validUtf8 r.key = false ∧ r.ver = -1)

theorem DiskInv.filesOk {name : Bytes} {m : KV} {fs : Fs} {rs : List KRec} {vs : List Bytes} (h : DiskInv name m fs rs vs) : FilesOk name fs rs vs :=
  ⟨h.keys, h.values, h.nodup, h.good, h.goodVals, h.bk⟩

theorem FilesOk.live_bkey {name : Bytes} {fs : Fs} {rs : List KRec} {vs : List Bytes} (h : FilesOk name fs rs vs) :
    ∀ r ∈ rs, r.ver ≠ -1 → r.bkey = r.key := by
  intro r hr hv
  rcases h.bk r hr with h1 | ⟨_, h1⟩
  · exact h1
  · exact absurd h1 hv

/-- the loaded entry of a live record, with its position -/
theorem loadedRecs_full (rs : List KRec) (hn : (rs.map (·.key)).Nodup) (hbk : ∀ r ∈ rs, r.ver ≠ -1 → r.bkey = r.key) (k : Bytes) :
    ∀ (ka c : Nat) (m : KV) (r : KRec), getRec rs k = some r → r.ver ≠ -1 → ∀ off, offOf rs k = some off →
      ∃ e', AL.get? (loadedRecs rs ka c m) k = some e' ∧ e'.value = r.v ∧ e'.version = r.ver ∧ e'.state = .ok ∧ e'.kaddr = ka + off := by
  induction rs with
  | nil => intro _ _ _ r h; simp [getRec] at h
  | cons r0 t ih =>
    intro ka c m r hr hv off hoff
    simp only [List.map_cons, List.nodup_cons] at hn
    have hbk' : ∀ x ∈ t, x.ver ≠ -1 → x.bkey = x.key := fun x hx => hbk x (List.mem_cons_of_mem _ hx)
    by_cases hk : r0.key = k
    · have hget : getRec (r0 :: t) k = some r0 := by simp [getRec, hk]
      rw [hget] at hr; cases hr
      simp only [offOf, hk, if_true, Option.some.injEq] at hoff
      subst hoff
      have hnot : k ∉ t.map (·.key) := hk ▸ hn.1
      have hrest := fun ka c m => (loadedRecs_get t hn.2 hbk' k ka c m).1 (getRec_none_of_not_mem t k hnot)
      have : (r0.ver != -1) = true := by simpa using hv
      simp only [loadedRecs, this, if_true]
      rw [hrest, hbk r0 List.mem_cons_self hv, hk, AL.get?_put_same]
      exact ⟨_, rfl, rfl, rfl, rfl, rfl⟩
    · have hget : getRec (r0 :: t) k = getRec t k := by simp [getRec, hk]
      rw [hget] at hr
      simp only [offOf, hk, if_false] at hoff
      cases ho : offOf t k with
      | none => simp [ho] at hoff
      | some off' =>
        simp only [ho, Option.map_some, Option.some.injEq] at hoff
        simp only [loadedRecs]
        split
        · obtain ⟨e', h1, h2, h3, h4, h5⟩ := ih hn.2 hbk' (ka + keyRecSize r0.bkey.length) (c + 1)
            (AL.put m r0.bkey { value := r0.v, version := r0.ver, opId := c, state := .ok, vaddr := r0.va, kaddr := ka }) r hr hv off' ho
          exact ⟨e', h1, h2, h3, h4, by rw [h5, ← hoff]; omega⟩
        · obtain ⟨e', h1, h2, h3, h4, h5⟩ := ih hn.2 hbk' (ka + keyRecSize r0.bkey.length) c m r hr hv off' ho
          exact ⟨e', h1, h2, h3, h4, by rw [h5, ← hoff]; omega⟩

/-- **restart**: the map the loader builds from files that are in order is linked to those files by
`DiskInv` again — every entry clean, at its record's position; tombstone records become orphans -/
theorem restart_inv {name : Bytes} {fs : Fs} {rs : List KRec} {vs : List Bytes} (h : FilesOk name fs rs vs) (c : Nat) :
    DiskInv name (loadedRecs rs 0 c []) fs (orphanizeFrom 0 rs) vs := by
  have hbk := h.live_bkey
  have hvalid : ∀ r ∈ rs, r.ver ≠ -1 → validUtf8 r.key = true := by
    intro r hr hv; rw [← hbk r hr hv]; exact (h.good r hr).kutf
  -- every loaded entry comes from a live record
  have hsrc : ∀ k e, AL.get? (loadedRecs rs 0 c []) k = some e →
      ∃ r, getRec rs k = some r ∧ r.ver ≠ -1 := by
    intro k e hg
    obtain ⟨g1, g2, _⟩ := loadedRecs_get rs h.nodup hbk k 0 c []
    cases hgr : getRec rs k with
    | none => rw [g1 hgr] at hg; cases hg
    | some r =>
      by_cases hv : r.ver = -1
      · rw [g2 r hgr hv] at hg; cases hg
      · exact ⟨r, rfl, hv⟩
  have hfull : ∀ k e, AL.get? (loadedRecs rs 0 c []) k = some e →
      ∃ r off, getRec rs k = some r ∧ r.ver ≠ -1 ∧ validUtf8 k = true ∧ offOf rs k = some off ∧
        e.value = r.v ∧ e.version = r.ver ∧ e.state = .ok ∧ e.kaddr = off := by
    intro k e hg
    obtain ⟨r, hgr, hv⟩ := hsrc k e hg
    obtain ⟨hrm, hrk⟩ := getRec_mem_key rs k r hgr
    have hu : validUtf8 k = true := by rw [← hrk]; exact hvalid r hrm hv
    have hmem : k ∈ rs.map (·.key) := List.mem_map.2 ⟨r, hrm, hrk⟩
    cases ho : offOf rs k with
    | none => exact absurd ((offOf_none_iff rs k).1 ho) (fun h => h hmem)
    | some off =>
      obtain ⟨e', h1, h2, h3, h4, h5⟩ := loadedRecs_full rs h.nodup hbk k 0 c [] r hgr hv off ho
      rw [hg] at h1; cases h1
      exact ⟨r, off, hgr, hv, hu, rfl, h2, h3, h4, by rw [h5]; omega⟩
  exact {
    keys := by rw [encRecs_orphanize]; exact h.keys
    values := h.values
    nodup := nodup_orphanize rs h.nodup hvalid 0
    good := by
      intro x hx
      rcases mem_orphanize rs 0 x hx with ⟨h1, _⟩ | ⟨j, _, _, hxv, r, hr, hrv, hb, hva, hvv⟩
      · exact h.good x h1
      · have g := h.good r hr
        exact { klen := by rw [hb]; exact g.klen, kutf := by rw [hb]; exact g.kutf, verLo := by rw [hxv]; decide, verHi := by rw [hxv]; decide,
                vaFit := by rw [hva]; exact g.vaFit, vlen := by rw [hvv]; exact g.vlen, vutf := by rw [hvv]; exact g.vutf,
                val := by rw [hva, hvv]; exact g.val }
    goodVals := h.goodVals
    fresh := by
      intro k e hg hs
      obtain ⟨_, _, _, _, _, _, _, _, hst, _⟩ := hfull k e hg
      rw [hst] at hs; cases hs
    stored := by
      intro k e hg _
      obtain ⟨r, off, hgr, hv, hu, ho, h2, h3, h4, h5⟩ := hfull k e hg
      obtain ⟨o1, o2⟩ := (offOf_orphanize rs k hu 0).1 r hgr hv
      exact ⟨by rw [o1, ho, h5], fun _ => ⟨r, o2, h3.symm, h2.symm⟩⟩
    known := by
      intro k ho hu
      cases hgr : getRec rs k with
      | none => exact absurd ((offOf_orphanize rs k hu 0).2 (Or.inl hgr) h.nodup) ho
      | some r =>
        by_cases hv : r.ver = -1
        · exact absurd ((offOf_orphanize rs k hu 0).2 (Or.inr ⟨r, hgr, hv⟩) h.nodup) ho
        · obtain ⟨_, _, g3⟩ := loadedRecs_get rs h.nodup hbk k 0 c []
          obtain ⟨e', he', _, _, hst⟩ := g3 r hgr hv
          exact ⟨e', he', by rw [hst]; decide⟩
    bk := by
      intro x hx
      rcases mem_orphanize rs 0 x hx with ⟨h1, h2⟩ | ⟨j, _, hk, hxv, _⟩
      · exact Or.inl (hbk x h1 h2)
      · exact Or.inr ⟨by rw [hk]; exact junk_invalid j, hxv⟩ }


end Nun
