import NunVerif.Model.Map
/-! Workhorse lemmas about association lists. -/
namespace Nun.AL
variable {α : Type} {β : Type} [DecidableEq α]

@[simp] theorem get?_nil (k : α) : get? ([] : List (α × β)) k = none := rfl

@[simp] theorem get?_put_same (m : List (α × β)) (k : α) (v : β) : get? (put m k v) k = some v := by
  induction m with
  | nil => simp [put, get?]
  | cons h t ih =>
    obtain ⟨k', v'⟩ := h
    by_cases hk : k' = k <;> simp [put, get?, hk, ih]

theorem get?_put_other (m : List (α × β)) {k k' : α} (v : β) (h : k ≠ k') :
    get? (put m k v) k' = get? m k' := by
  induction m with
  | nil => simp [put, get?, h]
  | cons hd t ih =>
    obtain ⟨k0, v0⟩ := hd
    by_cases hk : k0 = k
    · subst hk; simp [put, get?, h]
    · by_cases hk' : k0 = k'
      · subst hk'; simp [put, get?, hk]
      · simp [put, get?, hk, hk', ih]

theorem get?_put (m : List (α × β)) (k k' : α) (v : β) :
    get? (put m k v) k' = if k = k' then some v else get? m k' := by
  by_cases h : k = k'
  · subst h; simp
  · simp [h, get?_put_other m v h]

@[simp] theorem get?_erase_same (m : List (α × β)) (k : α) : get? (erase m k) k = none := by
  induction m with
  | nil => rfl
  | cons h t ih =>
    obtain ⟨k', v'⟩ := h
    by_cases hk : k' = k <;> simp [erase, get?, hk, ih]

theorem get?_erase_other (m : List (α × β)) {k k' : α} (h : k ≠ k') :
    get? (erase m k) k' = get? m k' := by
  induction m with
  | nil => rfl
  | cons hd t ih =>
    obtain ⟨k0, v0⟩ := hd
    by_cases hk : k0 = k
    · subst hk; simp [erase, get?, h, ih]
    · by_cases hk' : k0 = k'
      · subst hk'; simp [erase, get?, hk]
      · simp [erase, get?, hk, hk', ih]

theorem get?_erase (m : List (α × β)) (k k' : α) :
    get? (erase m k) k' = if k = k' then none else get? m k' := by
  by_cases h : k = k'
  · subst h; simp
  · simp [h, get?_erase_other m h]

/-- writing back the value already stored changes nothing -/
theorem put_same_value (m : List (α × β)) (k : α) (v : β) (h : get? m k = some v) : put m k v = m := by
  induction m with
  | nil => simp [get?] at h
  | cons hd t ih =>
    obtain ⟨k0, v0⟩ := hd
    by_cases hk : k0 = k
    · subst hk; simp [get?] at h; subst h; simp [put]
    · simp [get?, hk] at h; simp [put, hk, ih h]

theorem put_put_same (m : List (α × β)) (k : α) (v w : β) : put (put m k v) k w = put m k w := by
  induction m with
  | nil => simp [put]
  | cons hd t ih =>
    obtain ⟨k0, v0⟩ := hd
    by_cases hk : k0 = k <;> simp [put, hk, ih]

theorem mem_of_get? (m : List (α × β)) (k : α) (v : β) (h : get? m k = some v) : (k, v) ∈ m := by
  induction m with
  | nil => simp [get?] at h
  | cons hd t ih =>
    obtain ⟨k0, v0⟩ := hd
    by_cases hk : k0 = k
    · subst hk; simp [get?] at h; subst h; simp
    · simp [get?, hk] at h; exact List.mem_cons_of_mem _ (ih h)

/-- keys pairwise distinct -/
def NoDupKeys (m : List (α × β)) : Prop := (m.map (·.1)).Nodup

theorem keys_put (m : List (α × β)) (k : α) (v : β) :
    (put m k v).map (·.1) = if (get? m k).isSome then m.map (·.1) else m.map (·.1) ++ [k] := by
  induction m with
  | nil => simp [put, get?]
  | cons hd t ih =>
    obtain ⟨k0, v0⟩ := hd
    by_cases hk : k0 = k
    · subst hk; simp [put, get?]
    · simp [put, get?, hk, ih]; split <;> simp

theorem get?_none_iff_not_mem_keys (m : List (α × β)) (k : α) : get? m k = none ↔ k ∉ m.map (·.1) := by
  induction m with
  | nil => simp [get?]
  | cons hd t ih =>
    obtain ⟨k0, v0⟩ := hd
    by_cases hk : k0 = k
    · subst hk; simp [get?]
    · simp only [get?, hk, if_false, List.map_cons, List.mem_cons, not_or]
      rw [ih]; constructor
      · intro h; exact ⟨fun e => hk e.symm, h⟩
      · intro h; exact h.2

theorem noDupKeys_put (m : List (α × β)) (k : α) (v : β) (h : NoDupKeys m) : NoDupKeys (put m k v) := by
  unfold NoDupKeys at *
  rw [keys_put]
  split
  · exact h
  · rename_i hn
    have : get? m k = none := by
      cases hg : get? m k <;> simp_all
    have hk := (get?_none_iff_not_mem_keys m k).mp this
    exact List.nodup_append.mpr ⟨h, by simp, by
      intro a ha b hb; simp at hb; subst hb; intro hab; subst hab; exact hk ha⟩

theorem get?_of_mem_noDup (m : List (α × β)) (k : α) (v : β) (hn : NoDupKeys m) (h : (k, v) ∈ m) :
    get? m k = some v := by
  induction m with
  | nil => simp at h
  | cons hd t ih =>
    obtain ⟨k0, v0⟩ := hd
    unfold NoDupKeys at hn
    simp only [List.map_cons, List.nodup_cons] at hn
    by_cases hk : k0 = k
    · subst hk
      simp only [List.mem_cons, Prod.mk.injEq, true_and] at h
      rcases h with h | h
      · subst h; simp [get?]
      · exact absurd (List.mem_map_of_mem (f := (·.1)) h) hn.1
    · simp only [List.mem_cons, Prod.mk.injEq] at h
      rcases h with h | h
      · exact absurd h.1.symm hk
      · simp [get?, hk]; exact ih hn.2 h

end Nun.AL

namespace Nun.AL
variable {α : Type} {β : Type} [DecidableEq α]

theorem keys_erase_sublist (m : List (α × β)) (k : α) : ((erase m k).map (·.1)).Sublist (m.map (·.1)) := by
  induction m with
  | nil => simp [erase]
  | cons hd t ih =>
    obtain ⟨k0, v0⟩ := hd
    by_cases hk : k0 = k
    · simp only [erase, hk, if_true, List.map_cons]; exact List.Sublist.cons _ ih
    · simp only [erase, hk, if_false, List.map_cons]; exact List.Sublist.cons₂ _ ih

theorem noDupKeys_erase (m : List (α × β)) (k : α) (h : NoDupKeys m) : NoDupKeys (erase m k) :=
  List.Nodup.sublist (keys_erase_sublist m k) h

theorem mem_iff_get?_of_noDup (m : List (α × β)) (k : α) (v : β) (hn : NoDupKeys m) :
    (k, v) ∈ m ↔ get? m k = some v :=
  ⟨get?_of_mem_noDup m k v hn, mem_of_get? m k v⟩

end Nun.AL
