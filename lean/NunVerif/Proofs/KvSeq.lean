import NunVerif.Proofs.DiskView
/-! One database, one session: every command sequence behaves like a plain map (C01). -/
namespace Nun

inductive KvCmd
  | set (k v : Bytes) (ver : Int)
  | get (k : Bytes)
  | remove (k : Bytes)
  | inc (k : Bytes) (n : Int)
  | persist (reclaim : Bool) (order : List Bytes)
deriving Repr

inductive KvReply
  | value (v : Bytes)
  | ok
  | refused
deriving DecidableEq, Repr

structure KvSt where
  db : Db
  fs : Fs
  clock : Nat

/-- the database-level effect of the data commands on a database without conflict strategy,
built from the same functions `process_request_obj` calls -/
def kvStep (s : KvSt) : KvCmd → KvSt × KvReply
  | .set k v ver =>
    match s.db.setValue { key := k, value := v, version := ver, opId := s.clock, resolve := false } with
    | (db', .set _ _, _) => ({ s with db := db', clock := s.clock + 1 }, .ok)
    | (_, .versionError .., _) => ({ s with clock := s.clock + 1 }, .refused)
  | .get k => (s, .value (s.db.getKV k).1)
  | .remove k =>
    match s.db.removeValue k with
    | some (db', _) => ({ s with db := db' }, .ok)
    | none => (s, .refused)
  | .inc k n =>
    match s.db.incValue k n s.clock with
    | (db', .ok, _) => ({ s with db := db', clock := s.clock + 1 }, .ok)
    | (_, _, _) => ({ s with clock := s.clock + 1 }, .refused)
  | .persist r o =>
    match snapshotDb s.db s.fs r o s.clock with
    | (db', fs', c') => ({ db := db', fs := fs', clock := c' }, .ok)

def kvRun : KvSt → List KvCmd → List KvReply
  | _, [] => []
  | s, c :: cs => (kvStep s c).2 :: kvRun (kvStep s c).1 cs

abbrev PlainMap := Bytes → Option Bytes

/-- the plain map's successor state; for a versioned write the accept bit is the run's (C02) -/
def specNext (σ : PlainMap) : KvCmd → KvReply → PlainMap
  | .set k v _, .ok => fupd σ k (some v)
  | .remove k, .ok => fupd σ k none
  | .inc k n, .ok => fupd σ k (((specNumeric σ k).map fun cur => Bytes.ofInt (cur + n)))
  | _, _ => σ

/-- what the plain map says the reply must be -/
def specReplyOk (σ : PlainMap) (exhausted : Bytes → Prop) : KvCmd → KvReply → Prop
  | .set k _ ver, r => ver = -1 → (r = .ok ∨ exhausted k)
  | .get k, r => r = .value ((σ k).getD Gen.emptyValue)
  | .remove k, r => (r = .ok ↔ k ≠ Gen.tokenKey) ∧ (r = .ok ∨ r = .refused)
  | .inc k n, r => (r = .ok ↔ (∃ cur, specNumeric σ k = some cur ∧ Bytes.fitsI32 (cur + n) = true) ∧ ¬ exhausted k) ∧ (r = .ok ∨ r = .refused)
  | .persist _ _, r => r = .ok

/-- the key's version counter sits at `i32::MAX`: a plain write can no longer be given a higher version -/
def Db.exhausted (db : Db) (k : Bytes) : Prop := db.versionCapped k = true

def cmdOk : KvCmd → Prop
  | .set _ _ ver => -1 ≤ ver ∧ ver ≤ 2147483647
  | _ => True

theorem setValue_verInv (db : Db) (c : Change) (h : VerInv db) (hv : -1 ≤ c.version ∧ c.version ≤ 2147483647) (hr : c.resolve = false) :
    VerInv (db.setValue c).1 := by
  unfold Db.setValue
  cases hg : db.getValue c.key with
  | none => exact verInv_setValueVersion _ _ _ _ _ _ _ _ h (by unfold vinc; split <;> omega)
  | some old =>
    simp only []
    split
    · exact h
    · rename_i hcond
      have hold := h c.key old hg
      apply verInv_setValueVersion _ _ _ _ _ _ _ _ h
      simp only [Change.nextVersion, Change.keepInConflict, Entry.inConflict, inConflict, hr]
      have h1 : c.version ≠ Gen.inConflictVersion := by unfold Gen.inConflictVersion; omega
      have h2 : old.version ≠ Gen.inConflictVersion := by unfold Gen.inConflictVersion; omega
      simp only [decide_eq_true_eq, h1, h2, if_false, Bool.false_eq_true]
      have := le_vinc c.version; have := le_vinc old.version
      have := vinc_le_max c.version hv.2; have := vinc_le_max old.version hold.2
      split <;> omega

theorem incValue_verInv (db : Db) (k : Bytes) (inc : Int) (op : Nat) (h : VerInv db) :
    VerInv (db.incValue k inc op).1 := by
  unfold Db.incValue
  split
  · split
    · split
      · exact h
      · simp only [Db.incStore]
        split
        · rename_i e hg
          exact verInv_setValueVersion _ _ _ _ _ _ _ _ h
            (by have hb := h k e hg; have := le_vinc e.version; have := vinc_le_max e.version hb.2; omega)
        · exact verInv_setValueVersion _ _ _ _ _ _ _ _ h (by omega)
    · exact h
  · exact h

theorem removeValue_verInv (db db' : Db) (k : Bytes) (ps : List Push) (h : VerInv db)
    (hr : db.removeValue k = some (db', ps)) : VerInv db' := by
  unfold Db.removeValue at hr
  split at hr
  · simp at hr
  · simp only [Option.some.injEq, Prod.mk.injEq] at hr
    rw [← hr.1]
    cases hg : db.getValue k with
    | none => exact h
    | some e =>
      simp only []
      split
      · intro k' e' hg'
        simp only [AL.get?_erase] at hg'
        split at hg'
        · simp at hg'
        · exact h k' e' hg'
      · exact verInv_setValueVersion _ _ _ _ _ _ _ _ h (by have hb := h k e hg; have := le_vinc e.version; have := vinc_le_max e.version hb.2; omega)

/-- a plain write to a database whose versions are all non-negative is refused only when the
key's version counter is exhausted -/
theorem setValue_plain_accepted (db : Db) (c : Change) (h : VerInv db) (hv : c.version = -1) (hr : c.resolve = false)
    (hfree : ¬ db.exhausted c.key) :
    ∃ db' ps, db.setValue c = (db', .set c.key c.value, ps) := by
  unfold Db.setValue
  cases hg : db.getValue c.key with
  | none => exact ⟨_, _, rfl⟩
  | some old =>
    simp only []
    have hold := h c.key old hg
    have hlt : old.version < 2147483647 := by
      by_cases hx : old.version < 2147483647
      · exact hx
      · have : old.version = 2147483647 := by omega
        exact absurd (by simp [Db.exhausted, Db.versionCapped, hg, this]) hfree
    have hnv : c.nextVersion old = old.version + 1 := by
      simp only [Change.nextVersion, Change.keepInConflict, Entry.inConflict, inConflict, hr, hv]
      have h2 : ¬ old.version = -2 := by omega
      simp [h2, Gen.inConflictVersion, vinc_eq _ hlt]
    rw [hnv]
    have : ¬ (old.version + 1 ≤ old.version ∧ ¬ c.keepInConflict = true) := fun hh => by omega
    simp only [this, if_false]
    exact ⟨_, _, rfl⟩

/-- one simulation square -/
theorem kvStep_sim (s : KvSt) (c : KvCmd) (hw : s.db.WF) (hc : cmdOk c) :
    (kvStep s c).1.db.WF ∧
    (kvStep s c).1.db.view = specNext s.db.view c (kvStep s c).2 ∧
    specReplyOk s.db.view s.db.exhausted c (kvStep s c).2 := by
  cases c with
  | set k v ver =>
    simp only [cmdOk] at hc
    cases hres : s.db.setValue { key := k, value := v, version := ver, opId := s.clock, resolve := false } with
    | mk db' rest =>
      obtain ⟨r, ps⟩ := rest
      have hwf : db'.WF := by
        have e : db' = (s.db.setValue { key := k, value := v, version := ver, opId := s.clock, resolve := false }).1 := by rw [hres]
        rw [e]
        exact ⟨setValue_noDup _ _ hw.nodup, setValue_tombInv _ _ hw.tomb, setValue_verInv _ _ hw.ver hc rfl⟩
      cases r with
      | set k' v' =>
        have e : kvStep s (.set k v ver) = ({ s with db := db', clock := s.clock + 1 }, .ok) := by simp [kvStep, hres]
        rw [e]
        refine ⟨hwf, ?_, fun _ => Or.inl rfl⟩
        simp only [specNext]
        exact setValue_ok_view _ _ _ _ _ _ hres
      | versionError k' ov v' old c' st =>
        have e : kvStep s (.set k v ver) = ({ s with clock := s.clock + 1 }, .refused) := by simp [kvStep, hres]
        rw [e]
        refine ⟨hw, rfl, ?_⟩
        intro hplain
        by_cases hex : s.db.exhausted k
        · exact Or.inr hex
        · obtain ⟨db2, ps2, h2⟩ := setValue_plain_accepted s.db { key := k, value := v, version := ver, opId := s.clock, resolve := false } hw.ver hplain rfl hex
          rw [h2] at hres; simp at hres
  | get k =>
    have e : kvStep s (.get k) = (s, .value (s.db.getKV k).1) := rfl
    rw [e]
    refine ⟨hw, rfl, ?_⟩
    simp only [specReplyOk]
    rw [getKV_view _ _ hw.tomb]
  | remove k =>
    cases hres : s.db.removeValue k with
    | none =>
      have e : kvStep s (.remove k) = (s, .refused) := by simp [kvStep, hres]
      rw [e]
      have := (removeValue_none_iff s.db k).mp hres
      refine ⟨hw, rfl, ?_⟩
      simp [specReplyOk, this]
    | some r =>
      obtain ⟨db', ps⟩ := r
      have e : kvStep s (.remove k) = ({ s with db := db' }, .ok) := by simp [kvStep, hres]
      rw [e]
      obtain ⟨hk, hv⟩ := removeValue_view _ _ _ _ hres
      refine ⟨⟨removeValue_noDup _ _ _ _ hw.nodup hres, removeValue_tombInv _ _ hw.tomb _ _ hres,
              removeValue_verInv _ _ _ _ hw.ver hres⟩, hv, ?_⟩
      simp [specReplyOk, hk]
  | inc k n =>
    cases hres : s.db.incValue k n s.clock with
    | mk db' rest =>
      obtain ⟨r, ps⟩ := rest
      have hwf : db'.WF := by
        have e : db' = (s.db.incValue k n s.clock).1 := by rw [hres]
        rw [e]
        exact ⟨incValue_noDup _ _ _ _ hw.nodup, incValue_tombInv _ _ _ _ hw.tomb, incValue_verInv _ _ _ _ hw.ver⟩
      cases r with
      | ok =>
        have e : kvStep s (.inc k n) = ({ s with db := db', clock := s.clock + 1 }, .ok) := by simp [kvStep, hres]
        rw [e]
        obtain ⟨cur, h1, h2, hcap, h3⟩ := incValue_ok_view _ _ _ _ _ _ hres
        refine ⟨hwf, ?_, ?_⟩
        · simp only [specNext]; rw [h3, h1]; rfl
        · simp only [specReplyOk]
          refine ⟨⟨fun _ => ⟨⟨cur, h1, h2⟩, by simp [Db.exhausted, hcap]⟩, fun _ => by trivial⟩, by simp⟩
      | notNumeric =>
        have e : kvStep s (.inc k n) = ({ s with clock := s.clock + 1 }, .refused) := by simp [kvStep, hres]
        rw [e]
        obtain ⟨h1, _, _⟩ := incValue_notNumeric _ _ _ _ _ _ hres
        refine ⟨hw, rfl, ?_⟩
        simp [specReplyOk, h1]
      | overflow =>
        have e : kvStep s (.inc k n) = ({ s with clock := s.clock + 1 }, .refused) := by simp [kvStep, hres]
        rw [e]
        obtain ⟨⟨cur, h1, h2⟩, _, _⟩ := incValue_overflow _ _ _ _ _ _ hres
        refine ⟨hw, rfl, ?_⟩
        simp [specReplyOk, h1, h2]
      | versionCap =>
        have e : kvStep s (.inc k n) = ({ s with clock := s.clock + 1 }, .refused) := by simp [kvStep, hres]
        rw [e]
        obtain ⟨hcap, _, _⟩ := incValue_versionCap _ _ _ _ _ _ hres
        refine ⟨hw, rfl, ?_⟩
        simp [specReplyOk, Db.exhausted, hcap]
  | persist r o =>
    obtain ⟨hv, hw'⟩ := snapshotDb_view s.db s.fs r o s.clock hw
    cases hres : snapshotDb s.db s.fs r o s.clock with
    | mk db' rest =>
      obtain ⟨fs', c'⟩ := rest
      have e : kvStep s (.persist r o) = (({ db := db', fs := fs', clock := c' } : KvSt), .ok) := by
        simp [kvStep, hres]
      rw [e]
      rw [hres] at hv hw'
      refine ⟨hw', hv, ?_⟩
      simp [specReplyOk]

/-- every reply of a command sequence is the plain map's, and the map evolves as the plain map does -/
def kvRunOk : KvSt → List KvCmd → Prop
  | _, [] => True
  | s, c :: cs =>
    specReplyOk s.db.view s.db.exhausted c (kvStep s c).2 ∧
    (kvStep s c).1.db.view = specNext s.db.view c (kvStep s c).2 ∧
    kvRunOk (kvStep s c).1 cs

theorem kvRun_sim (cs : List KvCmd) : ∀ (s : KvSt), s.db.WF → (∀ c ∈ cs, cmdOk c) → kvRunOk s cs := by
  induction cs with
  | nil => intro s _ _; trivial
  | cons c cs ih =>
    intro s hw hc
    obtain ⟨hw', hv, hr⟩ := kvStep_sim s c hw (hc c (by simp))
    exact ⟨hr, hv, ih _ hw' (fun c' h' => hc c' (by simp [h']))⟩

end Nun
